import json
BASE="cd /repo && /venv/bin/python -m pytest -ra -q -p no:cacheprovider --timeout=900 --continue-on-collection-errors"
checks=[]
def add(pid, text, note, technique, ref):
    checks.append({"property_id":pid,"quick_cmd":f"./check {pid} --tier quick","thorough_cmd":f"./check {pid} --tier thorough",
      "evidence_file":f"evidence/{pid}.json","replay_cmd_template":f"./check {pid} --replay {{path}}","engine":"pyhf_smt",
      "level_claimed":{"category":"model_checking","text":text,"design_ref":ref},"level_note":note,"technique":technique})
add("C03","Bounded symbolic verification: the five real interpolator classes (vectorised and scalar reference) are executed on a tensor backend whose scalars are z3 real terms; alpha and every down/nominal/up value are symbolic (alpha over the whole real line), so formula, anchors, continuity/C1/C2 at the breakpoints, extrapolation slopes, fast=slow and history independence are solver-decided for all values; only tensor shapes (<=3 systs x 2 histos x 2 bins x 3 alphas) and call histories (<=3 calls) are enumerated.",
    "Arithmetic over the reals (no rounding); pow/log uninterpreted with true axiom instances; numpy trusted for array structure; z3 trusted for verdicts; code4 alpha0=1 only; other backends' kernels outside.",
    "symbolic execution of the real Python code on a z3-term tensor backend + per-cell SMT (nlsat) equivalence against scalar oracles, counterexamples replayed on numpy","DESIGN.md §3 C03")
MODEL_NOTE="Arithmetic over the reals (no rounding); pow/log/sqrt and the two log-density primitives uninterpreted with true axiom instances; numpy trusted for array structure; z3 trusted for verdicts; spec shapes bounded by the stated family; other backends' kernels outside."
TECH="symbolic execution of the real Python code on a z3-term tensor backend + per-cell SMT (nlsat) equivalence against scalar oracles, counterexamples replayed on numpy"
add("C01","Bounded symbolic verification: real pyhf.Model construction and expected_actualdata / return_by_sample evaluation run on the symbolic backend with every yield, variation, uncertainty, clip threshold and parameter a solver symbol (parameters over the whole real line); each reported bin and each (sample, bin) cell is proved equal to the scalar HistFactory formula walked from the spec dictionary; with clipping the proof is layered (every cell of every modifier applier, then the assembly on fresh modification symbols). Enumerated: the spec-shape family and the interpolation-code/clip/batch settings.",
    MODEL_NOTE+" The interpolation function itself is C03's subject (C01 applies the real interpolator to one isolated triple).",TECH,"DESIGN.md §3 C01")
add("C02","Bounded symbolic verification: real Model.logpdf/mainlogpdf/constraint_logpdf/pdf/expected_auxdata/expected_data on the symbolic backend with parameters, main data and (independent) auxiliary data symbolic; the log-density term is decomposed into its Poisson/Normal log-term applications and every argument (datum position, mean, width/factor) is proved equal to the constraint list derived from the spec and measurement overrides; plus the lemma that numpy_backend's hand-written log-density bodies are the textbook formulas.",
    MODEL_NOTE,TECH+"; congruence by decomposition of uninterpreted log-density applications","DESIGN.md §3 C02")
add("C10","Bounded symbolic verification: a model built with batch size N and the unbatched model are built from the same symbolic spec; for every row r, every entry of expected_data / expected_actualdata / per-sample rates and the log-density of the batched model is proved equal (for all values of all N rows of parameters and data) to the unbatched result on row r alone, which also shows rows cannot influence each other; batch-leading shapes and the sampled-data shape are checked with a sampler stub.",
    MODEL_NOTE+" Sampler stub returns a fresh symbolic tensor of the documented shape.",TECH,"DESIGN.md §3 C10")
add("C12","Bounded symbolic verification: slice registration is executed with symbolic parameter-set sizes (all sizes at once); whole models from the shape family are checked for tiling of parameter and channel slices, suggestion lengths, auxdata layout and defaults; measurement overrides (inits, bounds, fixed, auxdata, sigmas, factors) enter as fresh symbols and are proved to appear verbatim in the suggestions, config.auxdata and the constraint terms; Workspace.data / Workspace.build -> model()/data() round trip with symbolic observations; caller specs are compared leaf-by-leaf for mutation; every permutation (length<=3) of channel/sample/modifier/parameter/observation lists yields identical layout and identical logpdf/expected_data terms.",
    MODEL_NOTE,TECH,"DESIGN.md §3 C12")
add("C20","Bounded symbolic fault enumeration decided per fault: every single structural fault of the nine listed classes is injected at every applicable position of six well-formed base specs (values symbolic); real pyhf.Model construction must raise a pyhf exception, or - where the faulty spec still has a meaning as written - the accepted model's rates must equal, for all parameter values (solver-decided), the HistFactory formula of the spec as written; foreign exceptions, AssertionError and acceptance with dropped/mis-bound content are violations.",
    MODEL_NOTE+" Names are concrete; duplicates are injected concretely.",TECH+"; fault injection at every position","DESIGN.md §3 C20")
add("C15","Bounded symbolic verification of the likelihood-function core of the property: for each rewrite (reorder, rename incl. POI, zero-yield sample, null systematic, channel split, sample merge, signal rescaling with mu->mu/k) the original and rewritten models are built from the same symbolic spec and the solver proves, for all parameter points and all data under the induced parameter/data correspondence, that the two log-densities consist of the same Poisson/Normal log terms with pairwise equal arguments (added terms being exactly the constant-normalisation constraints), that expected data correspond and that suggested inits/bounds/fixed correspond.",
    MODEL_NOTE+" Numerical agreement of fits/CLs/limits across backends and optimisers (needs the real optimisers) is outside; wiring of inference onto logpdf is C05/C06/C08.",TECH+"; congruence by decomposition","DESIGN.md §3 C15")
m={"version":1,"setup_cmd":"./setup.sh",
 "hooks":{"guard":"PYHF_VERIF","enable":"not needed: instrumentation is harness-side (custom tensor backend via pyhf.set_backend; module-attribute stubs)","baseline_off_cmd":BASE,"source_commits":[],"add_only":True},
 "engines":[{"name":"pyhf_smt","path":"pyhf_smt/","serves_properties":[c["property_id"] for c in checks],"kind_free_text":"symbolic tensor backend (z3 Real terms in numpy object arrays) + forking path explorer + cell-wise SMT equivalence + concrete replay"}],
 "checks":checks,
 "not_applicable":[],
 "notes":"Exit 2 = inconclusive/harness error (never on the unchanged tree). See DESIGN.md."}
NA={"C04":"floating-point accuracy of compiled scipy/XLA/ATen/TFP kernels (lgamma, erfc, xlogy) over 20 orders of magnitude: no Python-level semantics to execute symbolically and no SMT theory for these transcendental kernels (DESIGN.md §3 C04)",
"C13":"gradients are produced inside XLA / ATen autograd / TensorFlow's C++ tape; pyhf only wraps them, nothing encodable within reach (DESIGN.md §3 C13)",
"C19":"end-to-end CLI I/O behaviour of whole-program runs with real fits; the only solver-reachable slice degenerates to sentinel dataflow matching (DESIGN.md §3 C19)"}
import sys
built=set(c["property_id"] for c in checks)
for i in range(1,21):
    pid=f"C{i:02d}"
    if pid in built: continue
    m["not_applicable"].append({"property_id":pid,"reason":NA.get(pid,"harness not built yet (in progress; see DESIGN.md §8 build order)")})
json.dump(m,open("/verif/MANIFEST.json","w"),indent=1)

#!/bin/sh
# Idempotent, offline: overlay venv on /venv (which has pyhf editable -> /repo/src) + solver wheels.
set -e
cd "$(dirname "$0")"
V=.venv
if [ ! -x "$V/bin/python" ] || ! "$V/bin/python" -c "import z3, cvc5, crosshair" >/dev/null 2>&1; then
  rm -rf "$V"
  /venv/bin/python -m venv "$V"
  SP=$("$V/bin/python" -c "import sysconfig; print(sysconfig.get_paths()['purelib'])")
  echo "import site; site.addsitedir('/venv/lib/python3.12/site-packages')" > "$SP/_base.pth"
  PIP_NO_INDEX=1 "$V/bin/pip" install -q --no-index --find-links /opt/veriftools/wheels z3-solver cvc5 crosshair-tool >/dev/null
fi
"$V/bin/python" -c "import z3, pyhf, sys; assert pyhf.__file__.startswith('/repo/src'), pyhf.__file__"

#!/bin/sh
# usage: tools_seed_eval.sh <patch.diff> <ID> [<ID> ...]   - apply a seeded change to /repo, run the named checks, undo it
P=$(readlink -f "$1"); shift
cd "$(dirname "$0")"
git -C /repo diff --quiet || { echo "/repo has local changes"; exit 3; }
git -C /repo apply "$P" || { echo "patch does not apply"; exit 3; }
for id in "$@"; do
  ./check $id --no-evidence 2>/dev/null | grep -v "^  imp\|^KNOWN" | grep "VIOLATION\|key=\|INCONCL\|HARNESS\|quick:" | awk '!seen[$0]++' | head -12 | cut -c1-220
done
git -C /repo checkout -- .
git -C /repo status --short | head -3

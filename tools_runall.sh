#!/bin/sh
# usage: tools_runall.sh [tier] [seed]  - run every registered check, one summary line each
cd "$(dirname "$0")"
TIER=${1:-quick}; SEED=${2:-0}
for p in $(python3 -c "import json;print(' '.join(c['property_id'] for c in json.load(open('MANIFEST.json'))['checks']))"); do
  VERIF_SEED=$SEED ./check $p --tier $TIER 2>/dev/null | grep -v "^KNOWN\|^  " | tail -2 | cut -c1-260
done

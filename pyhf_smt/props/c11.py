"""C11 - results are independent of the history of backend switches."""
from __future__ import annotations

import gc
import itertools
import weakref

import numpy as np

import pyhf

from .. import backend as B
from ..backend import sym_backend
from ..stubs import MinimizeStub, patched
from ..sym import SymArray

ID = "C11"
BUDGET = {"quick": dict(max_paths=16, timeout_ms=20000), "thorough": dict(max_paths=16, timeout_ms=60000)}
TWIN_EVERY = {"quick": 9, "thorough": 40}
VALIDATE_EVERY = {"quick": 100000, "thorough": 100000}

META = {
    "assumptions": [
        "histories end in a symbolic backend (two distinguishable symbolic backend instances A, B are available, both subclasses of the real numpy backend with name 'numpy' and different 'precision' so that set_backend sees a change); intermediate backends are stock numpy 64b / 32b (thorough: jax, pytorch, tensorflow when importable)",
        "value independence: every output of an old object equals, for all parameter values and data (solver-decided), the output of a freshly created object under the final backend",
        "tensor provenance: every symbolic tensor carries the tag of the backend instance that produced it (propagated through numpy views and arithmetic); a tensor with a foreign tag, or a raw float ndarray, reaching any backend operation other than the astensor conversion point is reported - this is what detects a cached tensor that was not re-derived (exact arithmetic cannot see it by value)",
        "model yields are concrete non-dyadic floats (a stale 32-bit tensor then also differs by value)",
    ],
    "bounds": {
        "quick": "all switch sequences of length <=3 over {numpy64, numpy32, sym-A, sym-B} x {scipy, minuit} ending in a symbolic backend (optimiser rotated), objects (model, five interpolators, tensor viewer, parameter viewer) created before any one switch, one deletion + gc position",
        "thorough": "length <=4, jax/pytorch/tensorflow as intermediate backends, creation at two positions",
    },
    "stubs": ["scipy.optimize.minimize -> MinimizeStub for the inference-on-old-object clause"],
    "outside_claim": ["numerical results under the real intermediate backends", "jit caches of opt_jax", "histories ending in a non-symbolic backend"],
}

BACKENDS = ["np64", "np32", "symA", "symB"]
SPEC = {"channels": [
    {"name": "SR", "samples": [
        {"name": "sig", "data": [5.1, 7.3], "modifiers": [{"name": "mu", "type": "normfactor", "data": None}, {"name": "jes", "type": "normsys", "data": {"lo": 0.93, "hi": 1.07}}]},
        {"name": "bkg", "data": [50.7, 52.3], "modifiers": [{"name": "jes", "type": "histosys", "data": {"lo_data": [48.1, 50.9], "hi_data": [53.3, 55.7]}},
                                                           {"name": "st", "type": "staterror", "data": [3.1, 4.7]},
                                                           {"name": "sf", "type": "shapefactor", "data": None}]},
        {"name": "qcd", "data": [11.3, 9.9], "modifiers": [{"name": "u", "type": "shapesys", "data": [1.3, 2.9]}, {"name": "lumi", "type": "lumi", "data": None}]}]}],
    "parameters": [{"name": "lumi", "auxdata": [1.03], "sigmas": [0.017], "bounds": [[0.5, 1.5]], "inits": [1.0]}]}
HISTO = [[[[0.93, 9.7], [1.0, 10.3], [1.07, 11.1]]], [[[0.81, 8.1], [1.0, 9.9], [1.21, 12.3]]]]


def _backend(name):
    if name == "np64":
        return ("numpy", "64b")
    if name == "np32":
        return ("numpy", "32b")
    return None


def items(tier, seed):
    out = []
    maxlen = 3 if tier == "quick" else 4
    pool = list(BACKENDS)
    if tier == "thorough":
        for extra in ("jax", "pytorch", "tensorflow"):
            pool.append(extra)
    k = 0
    for L in range(1, maxlen + 1):
        for seq in itertools.product(pool, repeat=L):
            if seq[-1] not in ("symA", "symB"):
                continue
            # the compiled backends cannot ingest tensors of the symbolic backend (object dtype); objects built under
            # a symbolic backend would fail there for a reason that is an artefact of the stand-in, so jax / pytorch /
            # tensorflow may only appear before the first symbolic backend of a history
            first_sym = min(i for i, b in enumerate(seq) if b in ("symA", "symB"))
            if any(b in ("jax", "pytorch", "tensorflow") for b in seq[first_sym:]):
                continue
            if any(a == b for a, b in zip(seq, seq[1:])) and tier == "quick" and L == 3:
                continue
            for create_at in range(L):
                if tier == "thorough" and L == 4 and create_at not in (0, 2):
                    continue
                out.append((seq, create_at, k % 2, (k // 2) % (L + 1), k % 3))
                k += 1
    out.append(("events",))
    return out


def _switch(env, name, optimizer, live):
    if name in ("symA", "symB"):
        tag = name[-1]
        b = live.setdefault(name, sym_backend(tag))
        # provenance is also tracked while the objects re-derive their tensors for a symbolic backend: a tensor
        # viewer / parameter viewer that was not refreshed hands stale index arrays to the objects refreshed after it
        B.prov_enable(True)
        try:
            pyhf.set_backend(b, custom_optimizer=optimizer)
        finally:
            live.setdefault("_viol", []).extend(B.prov_violations())
            B.prov_enable(False)
    else:
        spec = _backend(name)
        if spec:
            pyhf.set_backend(spec[0], custom_optimizer=optimizer, precision=spec[1])
        else:
            pyhf.set_backend(name, custom_optimizer=optimizer)


def _make_objects():
    objs = {}
    objs["model"] = pyhf.Model(SPEC, poi_name="mu")
    objs["bmodel"] = pyhf.Model(SPEC, poi_name="mu", batch_size=2)     # batched models keep separate precomputed tensors
    for code in (0, 1, 2, 4, "4p"):
        objs[f"interp{code}"] = pyhf.interpolators.get(code)(HISTO)
    from pyhf.tensor.common import _TensorViewer
    from pyhf.parameters import ParamViewer
    objs["viewer"] = _TensorViewer([[0, 2, 4], [1, 3]])
    m = objs["model"]
    objs["paramviewer"] = ParamViewer((m.config.npars,), m.config.par_map, ["jes", "st"])
    return objs


def harness_for(item):
    if item[0] == "events":
        return _events
    seq, create_at, optflag, delete_at, victim_mode = item

    def h(env):
        from ..harness import reset_pyhf
        N = env.num
        # concrete replay re-runs the same history with the same (symbolic-capable) backends, the symbols
        # being replaced by the counterexample's numbers: provenance is a property of these tensors
        reset_pyhf("numpy")
        B.prov_enable(False, track_index=True)
        live = {}
        opts = ["scipy", "minuit"]
        objs = None
        victim_ref = None
        early_victims = []
        for pos, name in enumerate(seq):
            if pos == create_at:
                # objects that will be deleted later are created BEFORE (victim_mode 1: one model, 2: a model and an
                # interpolator) or after (0) the surviving ones, so that dead subscriptions precede / follow live ones
                if victim_mode >= 1:
                    early_victims.append(pyhf.Model(SPEC, poi_name="mu"))
                if victim_mode == 2:
                    early_victims.append(pyhf.interpolators.get(0)(HISTO))
                objs = _make_objects()
            if objs is not None and pos >= delete_at and victim_ref is None:
                if early_victims:
                    victim_ref = weakref.ref(early_victims[0].main_model)
                    del early_victims[:]
                else:
                    victim = pyhf.Model(SPEC, poi_name="mu")
                    victim_ref = weakref.ref(victim.main_model)
                    del victim
                gc.collect()
            try:
                _switch(env, name, opts[(pos + optflag) % 2], live)
            except Exception as e:  # noqa: BLE001
                env.fail(f"switch[{pos}:{name}]", f"set_backend raised {type(e).__name__}: {str(e)[:160]}", key="switch-raises")
                return
        if victim_ref is not None:
            env.holds("deleted-object-collected", victim_ref() is None, key="gc")
        final = pyhf.tensorlib
        tb = final
        env.backend = final
        env.holds("final-backend", isinstance(final, sym_backend) and final.tag == seq[-1][-1], key="final-backend")
        fresh = _make_objects()
        B.prov_enable(True)
        m_old, m_new = objs["model"], fresh["model"]
        cfg = m_new.config
        pars = [env.sym(f"p{i}") for i in range(cfg.npars)]
        data = [env.sym(f"d{i}") for i in range(cfg.nmaindata + cfg.nauxdata)]
        pars2 = [env.sym(f"q{i}") for i in range(cfg.npars)]
        al = [[env.sym(f"a{s}")] for s in range(len(HISTO))]
        outs = {}
        for which, o in (("old", objs), ("new", fresh)):
            m = o["model"]
            r = {}
            r["expected_data"] = m.expected_data(tb.astensor(pars))
            r["logpdf"] = m.logpdf(tb.astensor(pars), tb.astensor(data))
            r["batched.expected_data"] = o["bmodel"].expected_data(tb.astensor([pars, pars2]))
            r["batched.logpdf"] = o["bmodel"].logpdf(tb.astensor([pars, pars2]), tb.astensor(data))
            for code in (0, 1, 2, 4, "4p"):
                r[f"interp{code}"] = o[f"interp{code}"](tb.astensor(al))
            parts = o["viewer"].split(tb.astensor(pars[:5]))
            r["viewer.stitch"] = o["viewer"].stitch(parts)
            r["paramviewer.get"] = o["paramviewer"].get(tb.astensor(pars))
            outs[which] = r
        viol = B.prov_violations() + live.get("_viol", [])
        B.prov_enable(False)
        env.holds("provenance", not viol, key="provenance:" + (viol[0][0] if viol else "clean"))
        if viol:
            env.note(f"provenance violations: {viol[:3]}")
        for k in outs["new"]:
            a, b = outs["old"][k], outs["new"][k]
            env.holds(f"type[{k}]", isinstance(a, SymArray) and getattr(a, "tag", None) in (final.tag, None) and np.shape(a) == np.shape(b), key="current-backend-type")
            env.eq_all(f"value[{k}]", list(np.asarray(a, dtype=object).ravel()), [N(x) for x in np.asarray(b, dtype=object).ravel()], key=f"value:{k.split('.')[0]}")
        # inference on the old object: the optimiser is handed the same objective as on the fresh one
        import types
        import scipy.optimize as so
        res = {}
        for which, m in (("old", m_old), ("new", m_new)):
            stub = MinimizeStub(env, prefix=f"opt_{which}_")
            fake = types.SimpleNamespace(optimize=types.SimpleNamespace(minimize=stub, OptimizeResult=so.OptimizeResult))
            pyhf.set_backend(final, custom_optimizer="scipy")
            with patched(("pyhf.optimize.opt_scipy", "scipy", fake)):
                xs = [env.sym(f"x{i}") for i in range(cfg.npars)]
                # evaluate the objective both optimisers are handed at one common symbolic point
                stub_call = {}

                def probe(func, x0, **kw):
                    stub_call["fun"] = func(tb.astensor(xs))
                    return so.OptimizeResult(x=tb.astensor(xs), fun=stub_call["fun"], success=True)
                fake.optimize.minimize = probe
                pyhf.infer.mle.fit(tb.astensor(data), m)
            res[which] = stub_call["fun"]
        env.eq("fit-objective", res["old"], res["new"], key="inference")
        B.prov_enable(False, track_index=False)
    return h


def _events(env):
    """tensorlib_changed fires iff name or precision changed; optimizer_changed iff the optimiser changed"""
    from ..harness import reset_pyhf
    reset_pyhf("numpy")
    count = {"t": 0, "o": 0}

    class Probe:
        def t(self):
            count["t"] += 1

        def o(self):
            count["o"] += 1
    pr = Probe()
    pyhf.events.subscribe("tensorlib_changed")(pr.t)
    pyhf.events.subscribe("optimizer_changed")(pr.o)
    A, A2, Bk = sym_backend("A"), sym_backend("A"), sym_backend("B")
    steps = [(("numpy", None, "64b"), False), (("numpy", None, "32b"), True), (("numpy", None, "64b"), True), (("numpy", None, "32b"), True),
             (("numpy", None, "32b"), False), ((A, None, None), True),
             ((A2, None, None), False), ((Bk, None, None), True), (("numpy", None, None), True)]
    for k, ((b, o, p), expect) in enumerate(steps):
        before = count["t"]
        pyhf.set_backend(b, custom_optimizer=o, precision=p)
        env.holds(f"tensorlib_changed[{k}]", (count["t"] - before == 1) == expect and count["t"] - before in (0, 1), key="events:tensorlib_changed")
    opt = pyhf.optimize.scipy_optimizer()
    for k, (o, expect) in enumerate([(opt, True), (opt, False), ("minuit", True)]):
        before = count["o"]
        pyhf.set_backend(pyhf.tensorlib, custom_optimizer=o)
        env.holds(f"optimizer_changed[{k}]", (count["o"] - before >= 1) == expect, key="events:optimizer_changed")
    env.eq("dummy-symbolic", env.sym("e0"), env.sym("e0"), key="events")

"""C12 - the model configuration is a consistent partition and honours overrides."""
from __future__ import annotations

import copy
import itertools
import types

import numpy as np

import pyhf

from .. import oracle, shapes
from ..sym import SV, SB
from . import common

ID = "C12"
BUDGET = {"quick": dict(max_paths=64, timeout_ms=20000), "thorough": dict(max_paths=256, timeout_ms=120000)}
TWIN_EVERY = {"quick": 6, "thorough": 12}
VALIDATE_EVERY = {"quick": 4, "thorough": 8}

META = {
    "assumptions": [
        "scalar arithmetic over the reals; log-density primitives uninterpreted",
        "parameter-set sizes in the slice-arithmetic obligation are symbolic reals >= 1 (the code only adds them); whole-model structure is enumerated over the shape family",
        "override values (inits, bounds, auxdata, sigmas, factors) and observations are fresh solver symbols, so 'appears verbatim at its position' is an equality for all values",
    ],
    "bounds": {
        "quick": "slice arithmetic: <=6 parameter sets with symbolic sizes; family F + 12 seeded shapes with full override sets; all permutations of channel / sample / modifier / measurement-parameter / observation lists of length <=3 (one list kind at a time, plus everything reversed)",
        "thorough": "as quick with 250 seeded shapes",
    },
    "stubs": [],
    "outside_claim": ["names containing '/'", "symbolic names (N-engine part is reported under C16/C17/C20)", "patches argument of Workspace.model"],
}

DEFAULTS = {"histosys": (0.0, (-5.0, 5.0)), "normsys": (0.0, (-5.0, 5.0)), "normfactor": (1.0, (0, 10)),
            "shapesys": (1.0, (1e-10, 10.0)), "staterror": (1.0, (1e-10, 10.0)), "shapefactor": (1.0, (0.0, 10.0))}


def _family(tier, seed):
    return shapes.family_core() + shapes.family_plus(seed, 12 if tier == "quick" else 250)


def items(tier, seed):
    out = [("slices", k) for k in (1, 2, 4, 6)]
    fam = _family(tier, seed)
    for i, sh in enumerate(fam):
        out.append(("layout", i, sh["tag"]))
        out.append(("overrides", i, sh["tag"], 0))
        out.append(("overrides", i, sh["tag"], 1))
        out.append(("workspace", i, sh["tag"]))
        out.append(("perm", i, sh["tag"]))
    out.append(("wronglen", 0))
    return out


def _param_sizes(spec):
    """name -> (types, n_components) from the spec as written"""
    bidx = oracle.binwise_index(spec)
    out = {}
    for c, s, m in shapes.walk_mods(spec):
        t, n = m["type"], m["name"]
        size = len(set(bidx[(t, n)].values())) if t in oracle.BINWISE else 1
        ts, sz = out.get(n, (set(), 1))
        ts.add(t)
        out[n] = (ts, max(sz, size))
    return out


def _with_overrides(shape, variant=0):
    """shape with a measurement-level parameter entry for every parameter (symbolic placeholders)"""
    sh = copy.deepcopy(shape)
    spec = sh["spec"]
    sizes = _param_sizes(spec)
    existing = {p["name"]: p for p in spec.get("parameters", [])}
    pars = []
    for k, (name, (ts, n)) in enumerate(sorted(sizes.items())):
        p = dict(existing.get(name, {"name": name}))
        p["inits"] = ["$x"] * n
        p["bounds"] = [["$x", "$x"] for _ in range(n)]
        # an explicit flag (either value) must win over the data-derived per-bin flags of shapesys / staterror too
        p["fixed"] = bool((k + variant) % 2)
        if ts & {"histosys", "normsys"}:
            p["auxdata"] = ["$x"]
        elif "staterror" in ts:
            p["auxdata"] = ["$p"] * n
            p["sigmas"] = ["$p"] * n
        elif "shapesys" in ts:
            p["auxdata"] = ["$p"] * n
            p["factors"] = ["$p"] * n
        elif "lumi" in ts:
            p["auxdata"] = ["$la"]
            p["sigmas"] = ["$ls"]
        pars.append(p)
    spec["parameters"] = pars
    return sh


def _leaves(x, path=()):
    if isinstance(x, dict):
        for k in sorted(x):
            yield from _leaves(x[k], path + (k,))
    elif isinstance(x, (list, tuple)):
        for i, v in enumerate(x):
            yield from _leaves(v, path + (i,))
    else:
        yield path, x


def _same_structure(a, b):
    la, lb = list(_leaves(a)), list(_leaves(b))
    if len(la) != len(lb):
        return False
    for (pa, va), (pb, vb) in zip(la, lb):
        if pa != pb:
            return False
        if isinstance(va, (SV, SB)) or isinstance(vb, (SV, SB)):
            if va is not vb:
                return False
        elif type(va) is not type(vb) or va != vb:
            return False
    return True


def _workspace_spec(env, spec, poi, prefix="o"):
    obs = []
    for c in spec["channels"]:
        nb = len(c["samples"][0]["data"])
        obs.append({"name": c["name"], "data": [env.sym(f"{prefix}_{c['name']}_{b}") for b in range(nb)]})
    return {"channels": spec["channels"], "observations": obs, "version": "1.0.0",
            "measurements": [{"name": "meas", "config": {"poi": poi or "", "parameters": spec.get("parameters", [])}}]}


def harness_for(item):
    kind = item[0]
    if kind == "slices":
        return lambda env: _slices(env, item[1])
    if kind == "wronglen":
        return _wronglen
    idx = item[1]

    def h(env):
        sh = _family(env.tier, env.seed)[idx]
        assert sh["tag"] == item[2]
        env.install_backend()
        if kind == "overrides":
            _overrides(env, sh, item[3])
        else:
            {"layout": _layout, "workspace": _workspace, "perm": _perm}[kind](env, sh)
    return h


def _slices(env, K):
    """running-index slice registration for symbolic parameter-set sizes"""
    env.install_backend()
    cfg = pyhf.pdf._ModelConfig({"channels": [{"name": "c", "samples": [{"name": "s", "data": [1.0], "modifiers": []}]}]})
    ns = [env.sym(f"n{k}", lo=1) for k in range(K)]
    req = {f"par{k}": types.SimpleNamespace(n_parameters=SV(ns[k]) if env.mode == "sym" else int(ns[k])) for k in range(K)}
    if env.mode != "sym":
        for k in range(K):
            if ns[k] != int(ns[k]):
                from ..harness import ReplayInvalid
                raise ReplayInvalid("non-integer size")
    cfg._create_and_register_paramsets(req)
    N = env.num
    if list(cfg.par_order) != list(req):
        env.fail("par_order", f"{cfg.par_order}", key="slices:par_order")
        return
    prev = N(0)
    for k, name in enumerate(cfg.par_order):
        sl = cfg.par_slice(name)
        env.eq(f"start[{k}]", sl.start, prev, key="slices:abut")
        env.eq(f"length[{k}]", N(sl.stop) - N(sl.start), ns[k], key="slices:length")
        prev = N(sl.stop)


def _layout(env, sh):
    spec, model, _, _ = common.build_model(env, sh)
    cfg = model.config
    H = lambda label, ok, key: env.holds(label, bool(ok), key=key)  # noqa: E731 (structural facts: concrete per shape)
    sizes = _param_sizes(spec)
    n_total = sum(n for _, n in sizes.values())
    H("npars", cfg.npars == n_total, "layout:npars")
    for nm, v in (("suggested_init", cfg.suggested_init()), ("suggested_bounds", cfg.suggested_bounds()),
                  ("suggested_fixed", cfg.suggested_fixed()), ("par_names", cfg.par_names)):
        H(f"len({nm})", len(v) == cfg.npars, f"layout:len:{nm}")
    H("par_order-set", sorted(cfg.par_order) == sorted(sizes), "layout:par_order")
    pos = 0
    for name in cfg.par_order:
        sl = cfg.par_slice(name)
        H(f"slice[{name}]", sl.start == pos and sl.stop - sl.start == sizes[name][1] == cfg.param_set(name).n_parameters, "layout:par_slice")
        pos = sl.stop
        exp_names = [name] if cfg.param_set(name).is_scalar else [f"{name}[{i}]" for i in range(sizes[name][1])]
        H(f"par_names[{name}]", cfg.par_names[sl] == exp_names, "layout:par_names")
    H("slices-cover", pos == cfg.npars, "layout:par_slice")
    pos = 0
    H("channels-sorted", list(cfg.channels) == oracle.channel_order(spec), "layout:channels")
    nb = {c["name"]: len(c["samples"][0]["data"]) for c in spec["channels"]}
    for c in cfg.channels:
        sl = cfg.channel_slices[c]
        H(f"channel_slice[{c}]", sl.start == pos and sl.stop - sl.start == nb[c] == cfg.channel_nbins[c], "layout:channel_slices")
        pos = sl.stop
    H("nmaindata", pos == cfg.nmaindata, "layout:nmaindata")
    constrained = [n for n, (ts, k) in sizes.items() if ts & {"histosys", "normsys", "lumi", "staterror", "shapesys"}]
    H("auxdata_order-set", sorted(cfg.auxdata_order) == sorted(constrained), "layout:auxdata_order")
    H("nauxdata", cfg.nauxdata == len(cfg.auxdata) == sum(sizes[n][1] for n in constrained), "layout:nauxdata")
    if sh.get("poi"):
        H("poi_index", cfg.poi_index == cfg.par_slice(sh["poi"]).start and cfg.poi_name == sh["poi"], "layout:poi")
    else:
        H("poi_none", cfg.poi_index is None and cfg.poi_name is None, "layout:poi")
    # defaults of the suggestions where the measurement does not configure the parameter
    user = common.user_cfg(spec)
    init, bounds, fixed = cfg.suggested_init(), cfg.suggested_bounds(), cfg.suggested_fixed()
    for name, (ts, n) in sizes.items():
        if name in user or "lumi" in ts:
            continue
        d_init, d_bounds = DEFAULTS[sorted(ts)[0]]
        sl = cfg.par_slice(name)
        for i in range(n):
            env.eq(f"default-init[{name},{i}]", init[sl][i], d_init, key="defaults:init")
            env.eq(f"default-lo[{name},{i}]", bounds[sl][i][0], d_bounds[0], key="defaults:bounds")
            env.eq(f"default-hi[{name},{i}]", bounds[sl][i][1], d_bounds[1], key="defaults:bounds")


def _overrides(env, sh, variant=0):
    sho = _with_overrides(sh, variant)
    tb = env.backend
    spec, model, _, _ = common.build_model(env, sho, prefix="ov_")
    cfg = model.config
    user = common.user_cfg(spec)
    init, bounds, fixed = cfg.suggested_init(), cfg.suggested_bounds(), cfg.suggested_fixed()
    if not (len(init) == len(bounds) == len(fixed) == cfg.npars):
        env.fail("lengths", "suggestion lengths differ from npars", key="overrides:lengths")
        return
    offs, k = {}, 0
    for n in cfg.auxdata_order:
        offs[n] = k
        k += cfg.param_set(n).n_parameters
    for name, p in user.items():
        sl = cfg.par_slice(name)
        n = sl.stop - sl.start
        if n != len(p["inits"]):
            env.fail(f"size[{name}]", f"slice of length {n} for {len(p['inits'])} configured components", key="overrides:size")
            continue
        for i in range(n):
            env.eq(f"init[{name},{i}]", init[sl][i], p["inits"][i], key="overrides:inits")
            env.eq(f"lo[{name},{i}]", bounds[sl][i][0], p["bounds"][i][0], key="overrides:bounds")
            env.eq(f"hi[{name},{i}]", bounds[sl][i][1], p["bounds"][i][1], key="overrides:bounds")
            if "fixed" in p:
                env.holds(f"fixed[{name},{i}]", fixed[sl][i] is p["fixed"] or fixed[sl][i] == p["fixed"], key="overrides:fixed")
            if "auxdata" in p:
                env.eq(f"auxdata[{name},{i}]", cfg.auxdata[offs[name] + i], p["auxdata"][i], key="overrides:auxdata")
    # the overrides reach the constraint terms: sigma / factor / position (reuses the C02 oracle)
    if not cfg.nauxdata:
        return
    pars = common.par_symbols(env, model)
    ea = model.expected_auxdata(tb.astensor(pars))
    terms = oracle.constraint_terms(env, spec, user, common.par_lookup(model, pars))
    want = []
    for n in cfg.auxdata_order:
        for t in terms[n]:
            want.append(t[1] if t[0] == "N" else t[1] * t[2])
    env.eq_all("expected_auxdata", ea, want, key="overrides:constraint-mean")
    gc = model.constraint_model.constraints_gaussian
    if gc.has_pdf():
        sig_want = [t[2] for n in cfg.auxdata_order for t in terms[n] if t[0] == "N"]
        env.eq_all("gaussian-sigmas", gc.sigmas, sig_want, key="overrides:sigmas")


def _workspace(env, sh):
    tb = env.backend
    spec = shapes.realize(env, sh["spec"])
    wspec = _workspace_spec(env, spec, sh.get("poi"))
    before = copy.deepcopy(wspec)
    ws = pyhf.Workspace(wspec)
    model = ws.model() if sh.get("poi") else ws.model(poi_name=None)
    cfg = model.config
    if not _same_structure(before, wspec):
        env.fail("mutation", "Workspace()/model() modified the caller's specification", key="no-mutation")
    obs = {o["name"]: o["data"] for o in wspec["observations"]}
    d = ws.data(model)
    want = [x for c in cfg.channels for x in obs[c]] + list(cfg.auxdata)
    env.eq_all("workspace.data", [env.num(x) for x in d], want, key="workspace:data")
    d2 = ws.data(model, include_auxdata=False)
    env.eq_all("workspace.data(main)", [env.num(x) for x in d2], [x for c in cfg.channels for x in obs[c]], key="workspace:data")
    if not _same_structure(before, wspec):
        env.fail("mutation:data", "Workspace.data modified the caller's specification", key="no-mutation")
    # rebuild from model + data
    pars = common.par_symbols(env, model)
    data = [env.sym(f"x{i}") for i in range(cfg.nmaindata + cfg.nauxdata)]
    lp = model.logpdf(tb.astensor(pars), tb.astensor(data))[0]
    try:
        ws2 = pyhf.Workspace.build(model, tb.astensor(d), validate=True)
        m2 = ws2.model() if sh.get("poi") else ws2.model(poi_name=None)
    except Exception as e:  # noqa: BLE001
        kind = "partially-fixed" if "not compressible" in str(e) else ("lumi" if any(m["type"] == "lumi" for _, _, m in shapes.walk_mods(spec)) else "other")
        env.fail("build", f"Workspace.build(model, data) -> model() raised {type(e).__name__}: {str(e)[:200]}", key=f"workspace:build:{kind}")
        return
    d3 = ws2.data(m2)
    env.eq_all("rebuild:data", [env.num(x) for x in d3], [env.num(x) for x in d], key="workspace:rebuild-data")
    c2 = m2.config
    if list(c2.par_order) != list(cfg.par_order) or c2.npars != cfg.npars:
        env.fail("rebuild:layout", f"{c2.par_order} vs {cfg.par_order}", key="workspace:rebuild-layout")
        return
    lp2 = m2.logpdf(tb.astensor(pars), tb.astensor(data))[0]
    has_over = any(set(p) & {"auxdata", "sigmas", "factors"} for p in spec.get("parameters", []))
    env.eq("rebuild:logpdf", lp2, lp, key="workspace:rebuild-logpdf" + (":aux-overrides" if has_over else ""))
    env.eq_all("rebuild:init", c2.suggested_init(), cfg.suggested_init(), key="workspace:rebuild-suggestions")
    env.holds("rebuild:fixed", list(c2.suggested_fixed()) == list(cfg.suggested_fixed()), key="workspace:rebuild-suggestions")


def _permutations(spec, wsobs=None):
    """variants of the spec with one kind of list permuted (all permutations up to length 3)"""
    out = []

    def perms(n):
        return [p for p in itertools.permutations(range(n)) if p != tuple(range(n))] if n <= 3 else [tuple(reversed(range(n)))]

    for p in perms(len(spec["channels"])):
        s = copy.copy(spec)
        s["channels"] = [spec["channels"][i] for i in p]
        out.append((f"channels{p}", s))
    for ci, c in enumerate(spec["channels"]):
        for p in perms(len(c["samples"])):
            s = copy.copy(spec)
            s["channels"] = list(spec["channels"])
            s["channels"][ci] = dict(c, samples=[c["samples"][i] for i in p])
            out.append((f"samples[{ci}]{p}", s))
        for si, smp in enumerate(c["samples"]):
            for p in perms(len(smp["modifiers"])):
                s = copy.copy(spec)
                s["channels"] = list(spec["channels"])
                samples = list(c["samples"])
                samples[si] = dict(smp, modifiers=[smp["modifiers"][i] for i in p])
                s["channels"][ci] = dict(c, samples=samples)
                out.append((f"modifiers[{ci},{si}]{p}", s))
    if spec.get("parameters"):
        for p in perms(len(spec["parameters"])):
            s = copy.copy(spec)
            s["parameters"] = [spec["parameters"][i] for i in p]
            out.append((f"parameters{p}", s))
    rev = {"channels": [dict(c, samples=[dict(s, modifiers=list(reversed(s["modifiers"]))) for s in reversed(c["samples"])])
                        for c in reversed(spec["channels"])]}
    if spec.get("parameters"):
        rev["parameters"] = list(reversed(spec["parameters"]))
    out.append(("all-reversed", rev))
    return out


def _perm(env, sh):
    tb = env.backend
    sho = _with_overrides(sh) if len(sh["spec"]["channels"]) <= 2 else sh
    spec = shapes.realize(env, sho["spec"], prefix="pm_")
    poi = sh.get("poi")
    base = pyhf.Model(spec, poi_name=poi)
    cfg = base.config
    pars = common.par_symbols(env, base)
    data = [env.sym(f"x{i}") for i in range(cfg.nmaindata + cfg.nauxdata)]
    lp = base.logpdf(tb.astensor(pars), tb.astensor(data))[0]
    ed = base.expected_data(tb.astensor(pars))
    variants = _permutations(spec)
    if env.tier == "quick" and len(variants) > 8:
        step = max(1, len(variants) // 8)
        variants = variants[::step][:7] + [variants[-1]]
    for tag, vs in variants:
        snap = copy.deepcopy(vs)
        m = pyhf.Model(vs, poi_name=poi)
        if not _same_structure(snap, vs):
            env.fail(f"{tag}:mutation", "Model() modified the caller's specification", key="no-mutation")
        c = m.config
        ok = (list(c.par_order) == list(cfg.par_order) and c.par_names == cfg.par_names and list(c.channels) == list(cfg.channels)
              and list(c.auxdata_order) == list(cfg.auxdata_order) and c.channel_slices == cfg.channel_slices
              and all(c.par_slice(n) == cfg.par_slice(n) for n in cfg.par_order) and c.poi_index == cfg.poi_index
              and list(c.suggested_fixed()) == list(cfg.suggested_fixed()))
        env.holds(f"{tag}:layout", ok, key="perm:layout")
        if not ok:
            continue
        env.eq_all(f"{tag}:init", c.suggested_init(), cfg.suggested_init(), key="perm:suggestions")
        env.eq_all(f"{tag}:bounds", [x for b in c.suggested_bounds() for x in b], [x for b in cfg.suggested_bounds() for x in b], key="perm:suggestions")
        env.eq_all(f"{tag}:auxdata", list(c.auxdata), list(cfg.auxdata), key="perm:auxdata")
        env.eq(f"{tag}:logpdf", m.logpdf(tb.astensor(pars), tb.astensor(data))[0], lp, key="perm:logpdf")
        env.eq_all(f"{tag}:expected_data", m.expected_data(tb.astensor(pars)), list(ed), key="perm:expected_data")
    # observation-list permutations through the workspace
    wspec = _workspace_spec(env, spec, poi)
    ws = pyhf.Workspace(wspec)
    d0 = ws.data(base)
    nobs = len(wspec["observations"])
    for p in itertools.permutations(range(nobs)):
        if p == tuple(range(nobs)) or nobs > 3:
            continue
        w2 = dict(wspec, observations=[wspec["observations"][i] for i in p])
        ws2 = pyhf.Workspace(w2)
        env.eq_all(f"observations{p}:data", [env.num(x) for x in ws2.data(base)], [env.num(x) for x in d0], key="perm:observations")


def _wronglen(env):
    env.install_backend()
    v = env.sym("v", positive=True)
    base = [shapes.channel("c", shapes.sample("s", 2, shapes.normfactor(), shapes.staterror("e", 2), shapes.normsys("k")),
                           shapes.sample("t", 2, shapes.shapesys("u", 2)))]
    cases = [("staterror:sigmas", {"name": "e", "sigmas": [v]}), ("staterror:inits", {"name": "e", "inits": [v, v, v]}),
             ("shapesys:auxdata", {"name": "u", "auxdata": [v]}), ("normsys:bounds", {"name": "k", "bounds": [[v, v], [v, v]]}),
             ("normfactor:inits", {"name": "mu", "inits": [v, v]}), ("duplicate-config", None)]
    for label, par in cases:
        pl = [par] if par else [{"name": "k", "inits": [v]}, {"name": "k", "inits": [v]}]
        spec = shapes.realize(env, {"channels": base, "parameters": pl})
        try:
            pyhf.Model(spec, poi_name="mu")
        except pyhf.exceptions.InvalidModel:
            env.holds(f"refused:{label}", True, key="override-wrong-length")
        except Exception as e:  # noqa: BLE001
            env.fail(f"refused:{label}", f"raised {type(e).__name__}: {e}", key="override-wrong-length")
        else:
            env.fail(f"refused:{label}", "override list of the wrong length accepted", key="override-wrong-length")

"""C16 - workspace combine, prune, rename and sort act on the likelihood as advertised."""
from __future__ import annotations

import copy
import itertools

import numpy as np

import pyhf

from .. import decide, names, shapes
from ..shapes import channel, histosys, lumi, normfactor, normsys, sample, shapefactor, shapesys, staterror
from ..sym import SV, zexpr
from . import common
from .c12 import _same_structure, _leaves

ID = "C16"
BUDGET = {"quick": dict(max_paths=2000, timeout_ms=30000), "thorough": dict(max_paths=20000, timeout_ms=120000)}
TWIN_EVERY = {"quick": 4, "thorough": 8}
VALIDATE_EVERY = {"quick": 6, "thorough": 12}

META = {
    "assumptions": [
        "all yields, modifier data, observations and measurement parameter settings are solver symbols; log-density primitives uninterpreted (likelihood identities by decomposition into terms with pairwise equal arguments)",
        "workspace.json / measurement.json schema validation runs for real on symbolic workspaces",
        "refusal cases: one channel / measurement / parameter-config name of the right workspace is symbolic in the equality sense (forked over the literal pool of pyhf.workspace, the left workspace's names, fresh)",
        "deliberately not asserted (the statement does not settle them): WHICH definition of a same-named sample of different content survives a merge_channels join (asserted only: an accepted result has one definition per sample name, taken from an input, keeps both sides' private samples and builds a model), and whether left/right outer keep the secondary's private parameter configs",
    ],
    "bounds": {
        "quick": "3 workspace pairs (1-2 channels each, shared and private parameters, same / different measurement names) x 4 joins x merge flag; prune / rename selections of <=2 items per kind on 3 workspaces; sorted under all permutations of lists of length <=3",
        "thorough": "5 pairs for combine (the quick ones + three-vs-one-shapesys, private-staterror-shared-histosys), 6 workspaces for prune / rename / sorted; larger path and time budgets",
    },
    "stubs": [],
    "outside_claim": ["patches argument of Workspace.model", "workspaces beyond the stated family"],
}


def _ws(env, chans, poi="mu", pars=None, meas="meas", prefix="", extra_meas=None):
    spec = shapes.realize(env, {"channels": chans, "parameters": pars or []}, prefix=prefix)
    obs = []
    for c in spec["channels"]:
        nb = len(c["samples"][0]["data"])
        obs.append({"name": c["name"], "data": [env.sym(f"{prefix}o_{c['name']}_{b}") for b in range(nb)]})
    ms = [{"name": meas, "config": {"poi": poi, "parameters": spec.get("parameters", [])}}]
    if extra_meas:
        ms.append({"name": extra_meas, "config": {"poi": poi, "parameters": []}})
    return {"channels": spec["channels"], "observations": obs, "measurements": ms, "version": "1.0.0"}


def _pairs():
    P = []
    P.append(("disjoint-shared-normsys",
              dict(chans=[channel("L1", sample("sig", 2, normfactor(), normsys("xs")), sample("bkg", 2, histosys("jes", 2), staterror("stL1", 2)))]),
              dict(chans=[channel("R1", sample("sig", 1, normfactor(), normsys("xs")), sample("qcd", 1, shapesys("uR", 1), normsys("lumiunc")))])))
    P.append(("two-channels-lumi",
              dict(chans=[channel("A", sample("s", 2, normfactor(), lumi()), sample("b", 2, lumi(), shapefactor("sf"))),
                          channel("B", sample("b", 1, lumi(), histosys("h", 1)))], pars=[shapes.LUMICFG]),
              dict(chans=[channel("C", sample("s", 2, normfactor(), lumi()), sample("t", 2, normsys("k"), staterror("stC", 2)))], pars=[shapes.LUMICFG])))
    P.append(("private-only",
              dict(chans=[channel("X", sample("s", 1, normfactor()), sample("b", 1, normsys("kx")))]),
              dict(chans=[channel("Y", sample("s", 2, normfactor("nu")), sample("b", 2, histosys("hy", 2)))], poi="nu")))
    P.append(("shared-name-across-types",
              dict(chans=[channel("L1", sample("sig", 2, normfactor(), normsys("JES")), sample("bkg", 2, normsys("JES"), histosys("JES", 2), normsys("xs")))],
                   pars=[{"name": "JES", "auxdata": ["$x"], "inits": ["$x"], "fixed": True}, {"name": "xs", "inits": ["$x"]}]),
              dict(chans=[channel("R1", sample("sig", 1, normfactor(), normsys("JES")))])))
    # thorough tier only (appended last so that the indices of the pairs above are stable)
    P.append(("three-vs-one-shapesys",
              dict(chans=[channel("A1", sample("s", 2, normfactor(), shapesys("uA", 2))), channel("A2", sample("s", 1, normfactor(), normsys("xs"))),
                          channel("A3", sample("b", 2, histosys("jes", 2), staterror("stA3", 2)))]),
              dict(chans=[channel("B1", sample("s", 2, normfactor(), histosys("jes", 2)), sample("b", 2, normsys("xs"), shapefactor("sfB")))])))
    P.append(("private-staterror-shared-histosys",
              dict(chans=[channel("M", sample("s", 3, normfactor(), histosys("h", 3)), sample("b", 3, staterror("stM", 3)))]),
              dict(chans=[channel("N", sample("s", 1, normfactor(), histosys("h", 1)), sample("c", 1, staterror("stN", 1), normsys("kn")))])))
    return P


N_QUICK_COMBINE = 3


def items(tier, seed):
    out = []
    combine_pairs = [pi for pi in range(len(_pairs())) if pi < N_QUICK_COMBINE or (tier == "thorough" and pi >= 4)]
    for pi in combine_pairs:
        for join in ("none", "outer", "left outer", "right outer"):
            for merge in ((False,) if join == "none" else (False, True)):
                for same_meas in ((False,) if join == "none" else (False, True)):
                    out.append(("combine", pi, join, merge, same_meas))
    out.append(("merge", None))
    out.append(("main-measurement", None))
    out.append(("refuse", "channel"))
    out.append(("refuse", "measurement"))
    out.append(("refuse", "parameter"))
    out.append(("refuse", "misc"))
    for pi in range(len(_pairs()) if tier == "thorough" else 4):
        out.append(("prune", pi))
        out.append(("rename", pi))
        out.append(("sorted", pi))
    return out


def _terms(term):
    out = []
    for coef, t in decide.split_sum(zexpr(SV(term))):
        if t is None or coef != 1 or not decide.is_uf_app(t):
            return None
        out.append((t.decl().name(), t.children()))
    return out


def _logpdf_parts(env, model, theta_by_name, data_by_chan, aux_by_name):
    """evaluate main / constraint log-densities of a model at named parameters / data"""
    tb = env.backend
    cfg = model.config
    th = [None] * cfg.npars
    for n in cfg.par_order:
        sl = cfg.par_slice(n)
        for j in range(sl.stop - sl.start):
            th[sl.start + j] = theta_by_name(n, j)
    main = [x for c in cfg.channels for x in data_by_chan[c]]
    aux = [aux_by_name(n, j) for n in cfg.auxdata_order for j in range(cfg.param_set(n).n_parameters)]
    ml = model.mainlogpdf(tb.astensor(main), tb.astensor(th))
    cl = model.constraint_logpdf(tb.astensor(aux), tb.astensor(th)) if cfg.nauxdata else None
    return ml, cl


def _match_terms(env, label, got_terms, want_terms, key, replay_as=None):
    """got == want as multisets of (function, datum) with pairwise equal remaining arguments"""
    saved, env.sym_only = env.sym_only, True
    saved_r = env.replay_as
    env.replay_as = replay_as or saved_r
    try:
        _match_terms_(env, label, got_terms, want_terms, key)
    finally:
        env.sym_only = saved
        env.replay_as = saved_r


def _match_terms_(env, label, got_terms, want_terms, key):
    pool = list(got_terms)
    for fname, args in want_terms:
        hit = [g for g in pool if g[0] == fname and g[1][0].eq(args[0])]
        if not hit:
            env.fail(f"{label}:missing[{fname}({args[0]})]", "term missing", key=key)
            continue
        pool.remove(hit[0])
        for j, (ga, wa) in enumerate(zip(hit[0][1][1:], args[1:])):
            env.eq(f"{label}:[{fname}({args[0]})].arg{j + 1}", SV(ga), SV(wa), key=key, validate=False)
    if pool:
        env.fail(f"{label}:extra", f"{len(pool)} extra terms, e.g. {pool[0][0]}({pool[0][1][0]})", key=key)
    else:
        env.holds(f"{label}:no-extra-terms", True, key=key)


def _likelihood_additive(env, label, ws_c, ws_l, ws_r, mname_c, mname_l, mname_r, key):
    N = env.num
    mc = ws_c.model(measurement_name=mname_c)
    ml_ = ws_l.model(measurement_name=mname_l)
    mr = ws_r.model(measurement_name=mname_r)
    pars = {}

    def theta(n, j):
        return pars.setdefault((n, j), env.sym(f"th_{n}_{j}"))
    data = {}
    for w in (ws_l, ws_r):
        for o in w["observations"]:
            data[o["name"]] = [env.sym(f"x_{o['name']}_{b}") for b in range(len(o["data"]))]
    aux = {}

    def auxd(n, j):
        return aux.setdefault((n, j), env.sym(f"ax_{n}_{j}"))
    mlc, clc = _logpdf_parts(env, mc, theta, data, auxd)
    mll, cll = _logpdf_parts(env, ml_, theta, data, auxd)
    mlr, clr = _logpdf_parts(env, mr, theta, data, auxd)
    if env.mode != "sym":
        env.eq(f"{label}:main-additive", mlc, N(mll) + N(mlr), key=key)
        # every constrained component once: total constraint density = union of the two (shared ones counted once)
        if clc is not None:
            seen, tot = set(), N(0)
            for m_, cl_ in ((ml_, cll), (mr, clr)):
                pass
            env.note("constraint-once clause is replayed through the main-additive / full-model comparison only")
        return
    tc, tl, tr = _terms(mlc), _terms(mll), _terms(mlr)
    if None in (tc, tl, tr):
        env.eq(f"{label}:main-additive", mlc, N(mll) + N(mlr), key=key)
    else:
        _match_terms(env, f"{label}:main", tc, tl + tr, key, replay_as=f"{label}:main-additive")
    # constraint part: each constrained component of L u R exactly once
    want = {}
    for t in (_terms(cll) if cll is not None else []) + (_terms(clr) if clr is not None else []):
        want.setdefault((t[0], t[1][0].get_id()), t)
    got = _terms(clc) if clc is not None else []
    if got is None:
        env.fail(f"{label}:constraint-form", "not a sum of log terms", key=key)
    else:
        _match_terms(env, f"{label}:constraint", got, list(want.values()), key + ":constraint-once", replay_as=f"{label}:constraint-once")


def harness_for(item):
    kind = item[0]

    def combine(env):
        _, pi, join, merge, same_meas = item
        env.install_backend()
        tag, l, r = _pairs()[pi]
        wl = _ws(env, prefix="L_", meas="meas" if same_meas else "measL", **l)
        wr = _ws(env, prefix="R_", meas="meas" if same_meas else "measR", **r)
        if same_meas and l.get("poi", "mu") != r.get("poi", "mu"):
            wr["measurements"][0]["config"]["poi"] = l.get("poi", "mu")   # same measurement needs one POI
            if not any(m["name"] == l.get("poi", "mu") for _, _, m in shapes.walk_mods({"channels": wr["channels"]})):
                return
        if same_meas and l.get("pars") and r.get("pars"):
            wr["measurements"][0]["config"]["parameters"] = copy.deepcopy(wl["measurements"][0]["config"]["parameters"])
        bl, br = copy.deepcopy(wl), copy.deepcopy(wr)
        WL, WR = pyhf.Workspace(wl), pyhf.Workspace(wr)
        key = f"combine:{join}:{'merge' if merge else 'nomerge'}"
        try:
            WC = pyhf.Workspace.combine(WL, WR, join=join, merge_channels=merge)
        except Exception as e:  # noqa: BLE001
            env.fail("combine", f"disjoint, compatible workspaces refused: {type(e).__name__}: {str(e)[:160]}", key=key + ":refused")
            return
        env.holds("inputs-untouched", _same_structure(bl, wl) and _same_structure(br, wr) and _same_structure(bl, dict(WL)) and _same_structure(br, dict(WR)), key=key + ":no-mutation")
        env.holds("is-workspace", isinstance(WC, pyhf.Workspace), key=key + ":type")
        # every channel / observation of both inputs present with identical content
        cc = {c["name"]: c for c in WC["channels"]}
        oc = {o["name"]: o for o in WC["observations"]}
        for src in (wl, wr):
            for c in src["channels"]:
                env.holds(f"channel[{c['name']}]", c["name"] in cc and _same_structure(c, cc[c["name"]]), key=key + ":content")
            for o in src["observations"]:
                env.holds(f"observation[{o['name']}]", o["name"] in oc and _same_structure(o, oc[o["name"]]), key=key + ":content")
        env.holds("channel-count", len(WC["channels"]) == len(wl["channels"]) + len(wr["channels"]), key=key + ":content")
        mc = {m["name"]: m for m in WC["measurements"]}
        for src in (wl, wr):
            for m in src["measurements"]:
                env.holds(f"measurement[{m['name']}]", m["name"] in mc and mc[m["name"]]["config"]["poi"] == m["config"]["poi"], key=key + ":content")
                if m["name"] in mc and not same_meas:
                    env.holds(f"measurement-content[{m['name']}]", _same_structure(m, mc[m["name"]]), key=key + ":content")
        env.holds("version", WC["version"] == "1.0.0", key=key + ":content")
        # likelihood: main part is the product, each constrained parameter once
        if same_meas:
            if join == "outer" or True:
                try:
                    _likelihood_additive(env, "lik", WC, WL, WR, "meas", "meas", "meas", key + ":likelihood")
                except pyhf.exceptions.InvalidModel as e:
                    if join in ("left outer", "right outer"):
                        env.note(f"{join} with a shared measurement drops the secondary's parameter configs (documented as unsafe): {str(e)[:80]}")
                    else:
                        raise
        else:
            # separate measurements: the combined workspace evaluated under L's measurement must contain L's
            # likelihood terms unchanged (parameters of R's channels enter through their own modifiers)
            for mname, W in (("measL", WL), ("measR", WR)):
                try:
                    mC = WC.model(measurement_name=mname)
                except pyhf.exceptions.InvalidModel as e:
                    env.note(f"model of the combined workspace under measurement {mname} needs settings only the other measurement has: {str(e)[:80]}")
                    continue
                env.holds(f"model[{mname}]:channels", sorted(mC.config.channels) == sorted(cc), key=key + ":likelihood")

    def main_measurement(env):
        """the main (first) measurement of both inputs stays the main measurement of an outer join, with the parameter
        settings of both sides, also when one side brings a further measurement"""
        env.install_backend()
        tag, l, r = _pairs()[0]
        wl = _ws(env, prefix="L_", meas="meas", extra_meas="altL", pars=[{"name": "xs", "inits": [0.25], "bounds": [[-2.0, 2.0]]}], **l)
        wr = _ws(env, prefix="R_", meas="meas", pars=[{"name": "lumiunc", "inits": [-0.5], "bounds": [[-3.0, 3.0]]}], **r)
        for a, b, lab in ((wl, wr, "left-extra"), (wr, wl, "right-extra")):
            WC = pyhf.Workspace.combine(pyhf.Workspace(copy.deepcopy(a)), pyhf.Workspace(copy.deepcopy(b)), join="outer")
            ms = WC["measurements"]
            env.holds(f"{lab}:names", sorted(m["name"] for m in ms) == ["altL", "meas"], key="combine:outer:measurements")
            env.holds(f"{lab}:main-first", ms[0]["name"] == "meas", key="combine:outer:main-measurement")
            main = next((m for m in ms if m["name"] == "meas"), None)
            if main is not None:
                got = {p["name"]: p for p in main["config"]["parameters"]}
                env.holds(f"{lab}:settings-of-both", sorted(got) == ["lumiunc", "xs"] and got["xs"].get("inits") == [0.25] and got["lumiunc"].get("inits") == [-0.5],
                          key="combine:outer:main-measurement")
                mdl = WC.model()
                init = dict(zip(mdl.config.par_names, mdl.config.suggested_init()))
                env.holds(f"{lab}:default-model-uses-main", float(SV(init.get("xs", 0)).v) == 0.25 and float(SV(init.get("lumiunc", 0)).v) == -0.5 if env.mode == "sym"
                          else (init.get("xs") == 0.25 and init.get("lumiunc") == -0.5), key="combine:outer:main-measurement")

    def refuse(env):
        what = item[1]
        env.install_backend()
        pool = names.literal_pool(["pyhf.workspace"])
        tag, l, r = _pairs()[0]
        wl = _ws(env, prefix="L_", **l)
        if what == "channel":
            nm = names.symname(env, "rc", pool, earlier=["L1"])
            rr = dict(chans=[channel(nm, sample("sig", 1, normfactor(), normsys("xs")))])
            wr = _ws(env, prefix="R_", meas="measR", **rr)
            clash = nm == "L1"
            for join in ("none", "outer", "left outer", "right outer"):
                lab = f"channel[{nm if not isinstance(nm, names.FreshName) else 'fresh'}]:{join}"
                try:
                    WC = pyhf.Workspace.combine(pyhf.Workspace(wl), pyhf.Workspace(wr), join=join)
                except pyhf.exceptions.InvalidWorkspaceOperation:
                    env.holds(lab, clash and join in ("none", "outer"), key=f"refuse:channel:{join}")
                    continue
                except Exception as e:  # noqa: BLE001
                    env.fail(lab, f"{type(e).__name__}: {str(e)[:100]}", key=f"refuse:channel:{join}:foreign")
                    continue
                if clash and join in ("none", "outer"):
                    env.fail(lab, "clashing channel definitions were combined", key=f"refuse:channel:{join}")
                elif clash:
                    keep = wl if join == "left outer" else wr
                    got = [c for c in WC["channels"] if c["name"] == "L1"]
                    env.holds(lab, len(got) == 1 and _same_structure(got[0], [c for c in keep["channels"] if c["name"] == "L1"][0]), key=f"refuse:channel:{join}:primary-kept")
                else:
                    env.holds(lab, len(WC["channels"]) == 2, key=f"refuse:channel:{join}")
            # identical overlapping channel under outer is fine
            if clash:
                wr2 = copy.deepcopy(wr)
                wr2["channels"] = [copy.deepcopy(wl["channels"][0])]
                wr2["observations"] = [copy.deepcopy(wl["observations"][0])]
                try:
                    WC = pyhf.Workspace.combine(pyhf.Workspace(wl), pyhf.Workspace(wr2), join="outer")
                    env.holds("identical-overlap:outer", len(WC["channels"]) == 1, key="refuse:channel:outer:identical")
                except Exception as e:  # noqa: BLE001
                    env.fail("identical-overlap:outer", f"{type(e).__name__}", key="refuse:channel:outer:identical")
        elif what == "measurement":
            nm = names.symname(env, "rm", pool, earlier=["meas"])
            for poi_same in (True, False):
                rr = dict(chans=[channel("R1", sample("sig", 1, normfactor(), normfactor("nu"), normsys("xs")))])
                wr = _ws(env, prefix="R_", meas=nm, poi="mu" if poi_same else "nu", **rr)
                clash = nm == "meas"
                for join in ("none", "outer"):
                    lab = f"measurement[{nm if not isinstance(nm, names.FreshName) else 'fresh'},{'samepoi' if poi_same else 'otherpoi'}]:{join}"
                    try:
                        pyhf.Workspace.combine(pyhf.Workspace(wl), pyhf.Workspace(wr), join=join)
                        refused = False
                    except pyhf.exceptions.InvalidWorkspaceOperation:
                        refused = True
                    except Exception as e:  # noqa: BLE001
                        env.fail(lab, f"{type(e).__name__}: {str(e)[:100]}", key=f"refuse:measurement:{join}:foreign")
                        continue
                    want = clash and (join == "none" or not poi_same)
                    env.holds(lab, refused == want, key=f"refuse:measurement:{join}")
        elif what == "parameter":
            nm = names.symname(env, "rp", pool, earlier=["xs", "jes"])
            v1, v2 = env.sym("cfg1"), env.sym("cfg2")
            wl2 = copy.deepcopy(wl)
            wl2["measurements"][0]["config"]["parameters"] = [{"name": "xs", "inits": [v1]}]
            rr = dict(chans=[channel("R1", sample("sig", 1, normfactor(), normsys("xs"), normsys(nm) if nm != "xs" else normsys("other")))])
            wr = _ws(env, prefix="R_", meas="meas", **rr)
            for same_val in (True, False):
                wr["measurements"][0]["config"]["parameters"] = [{"name": nm, "inits": [v1 if same_val else v2]}]
                if not same_val:
                    env.assume(env.num(v1) != env.num(v2))
                lab = f"parameter[{nm if not isinstance(nm, names.FreshName) else 'fresh'},{'same' if same_val else 'diff'}]:outer"
                try:
                    WC = pyhf.Workspace.combine(pyhf.Workspace(wl2), pyhf.Workspace(wr), join="outer")
                    refused = False
                except pyhf.exceptions.InvalidWorkspaceOperation:
                    refused = True
                except Exception as e:  # noqa: BLE001
                    env.fail(lab, f"{type(e).__name__}: {str(e)[:100]}", key="refuse:parameter:foreign")
                    continue
                want = (nm == "xs") and not same_val
                env.holds(lab, refused == want, key="refuse:parameter")
                if not refused:
                    ps = WC["measurements"][0]["config"]["parameters"]
                    env.holds(lab + ":once", sorted(p["name"] for p in ps) == sorted({"xs", nm}), key="refuse:parameter:once")
        else:
            wr = _ws(env, prefix="R_", meas="measR", **r)
            W1, W2 = pyhf.Workspace(wl), pyhf.Workspace(wr)
            for join in ("inner", "", "OUTER", None):
                try:
                    pyhf.Workspace.combine(W1, W2, join=join)
                    env.fail(f"invalid-join[{join}]", "accepted", key="refuse:join-string")
                except ValueError:
                    env.holds(f"invalid-join[{join}]", True, key="refuse:join-string")
            try:
                pyhf.Workspace.combine(W1, W2, join="none", merge_channels=True)
                env.fail("merge-with-none", "accepted", key="refuse:merge-none")
            except ValueError:
                env.holds("merge-with-none", True, key="refuse:merge-none")
            w3 = copy.deepcopy(wr)
            w3["version"] = "0.9.0"
            try:
                pyhf.Workspace.combine(W1, pyhf.Workspace(w3, validate=False), join="outer")
                env.fail("version-mismatch", "accepted", key="refuse:version")
            except pyhf.exceptions.InvalidWorkspaceOperation:
                env.holds("version-mismatch", True, key="refuse:version")
            # clashing observation for an identical channel
            w4 = copy.deepcopy(wl)
            w4["observations"][0]["data"] = [env.sym(f"clash{b}") for b in range(len(w4["observations"][0]["data"]))]
            env.assume(env.num(w4["observations"][0]["data"][0]) != env.num(wl["observations"][0]["data"][0]))   # a genuine clash
            w4["measurements"][0]["name"] = "m4"
            for join in ("none", "outer"):
                try:
                    pyhf.Workspace.combine(W1, pyhf.Workspace(w4), join=join)
                    env.fail(f"observation-clash:{join}", "accepted", key="refuse:observation")
                except pyhf.exceptions.InvalidWorkspaceOperation:
                    env.holds(f"observation-clash:{join}", True, key="refuse:observation")

    def _single(env, pi):
        tag, l, r = _pairs()[pi]
        chans = copy.deepcopy(l["chans"]) + copy.deepcopy(r["chans"]) if l.get("poi", "mu") == r.get("poi", "mu") else copy.deepcopy(l["chans"])
        pars = l.get("pars")
        return _ws(env, chans=chans, pars=pars, poi=l.get("poi", "mu"), extra_meas="second")

    def _same_logpdf(env, label, mA, mB, parmap, chanmap, key):
        """logpdf of mB equals that of mA under the name correspondence (B name -> A name)"""
        tb = env.backend
        cA, cB = mA.config, mB.config
        thA = [env.sym(f"t{i}") for i in range(cA.npars)]
        xA = [env.sym(f"x{i}") for i in range(cA.nmaindata + cA.nauxdata)]
        if cB.npars != cA.npars or cB.nmaindata != cA.nmaindata or cB.nauxdata != cA.nauxdata:
            env.fail(f"{label}:layout", "sizes differ", key=key)
            return
        thB = [None] * cB.npars
        for n in cB.par_order:
            a = parmap.get(n, n)
            if a not in cA.par_map:
                env.fail(f"{label}:par[{n}]", "no counterpart", key=key)
                return
            slB, slA = cB.par_slice(n), cA.par_slice(a)
            for j in range(slB.stop - slB.start):
                thB[slB.start + j] = thA[slA.start + j]
        xB = [None] * len(xA)
        for c in cB.channels:
            a = chanmap.get(c, c)
            slB, slA = cB.channel_slices[c], cA.channel_slices[a]
            for j in range(slB.stop - slB.start):
                xB[slB.start + j] = xA[slA.start + j]
        offA, k = {}, cA.nmaindata
        for n in cA.auxdata_order:
            offA[n] = k
            k += cA.param_set(n).n_parameters
        k = cB.nmaindata
        for n in cB.auxdata_order:
            for j in range(cB.param_set(n).n_parameters):
                xB[k] = xA[offA[parmap.get(n, n)] + j]
                k += 1
        lA = mA.logpdf(tb.astensor(thA), tb.astensor(xA))[0]
        lB = mB.logpdf(tb.astensor(thB), tb.astensor(xB))[0]
        if env.mode == "sym" and _terms(lA) is not None and _terms(lB) is not None:
            _match_terms(env, label, _terms(lB), _terms(lA), key, replay_as=label)
        else:
            env.eq(label, lB, lA, key=key)

    def prune(env):
        env.install_backend()
        w = _single(env, item[1])
        before = copy.deepcopy(w)
        W = pyhf.Workspace(w)
        mods = sorted({m["name"] for _, _, m in shapes.walk_mods(w)} - {"mu", "nu", "lumi"})
        samples = sorted({s["name"] for c in w["channels"] for s in c["samples"]})
        chans_ = [c["name"] for c in w["channels"]]
        sels = [dict(modifiers=[mods[0]]), dict(modifiers=mods[:2]), dict(samples=[samples[-1]]), dict(measurements=["second"]),
                dict(modifier_types=["normsys"]), dict(modifier_types=["histosys"]), dict(modifiers=[mods[-1]], samples=[samples[-1]])]
        if len(chans_) > 1:
            sels += [dict(channels=[chans_[-1]]), dict(channels=[chans_[0]], modifiers=[mods[0]])]
        for k, sel in enumerate(sels):
            lab = f"prune{k}"
            try:
                P = W.prune(**sel)
            except pyhf.exceptions.InvalidWorkspaceOperation:
                present = _present(w, sel)
                env.holds(f"{lab}:refused-only-if-absent", not present, key="prune:refusal")
                continue
            except Exception as e:  # noqa: BLE001
                env.note(f"prune {sel} -> {type(e).__name__}: {str(e)[:80]}")
                continue
            ref = _ref_prune(before, **sel)
            env.holds(f"{lab}:equals-reference", _same_structure(ref, dict(P)), key="prune:result")
            env.holds(f"{lab}:input-untouched", _same_structure(before, w) and _same_structure(before, dict(W)), key="prune:no-mutation")
            try:
                mP = P.model()
                mR = pyhf.Workspace(ref).model()
            except (pyhf.exceptions.InvalidModel, pyhf.exceptions.InvalidMeasurement) as e:
                env.note(f"pruned workspace {sel} has no model: {type(e).__name__}")
                continue
            _same_logpdf(env, f"{lab}:likelihood", mR, mP, {}, {}, "prune:likelihood")
        for bad in (dict(modifiers=["nosuch"]), dict(samples=["nosuch"]), dict(channels=["nosuch"]), dict(measurements=["nosuch"]), dict(modifier_types=["nosuchtype"])):
            try:
                W.prune(**bad)
                env.fail(f"prune-unknown{list(bad)}", "unknown name accepted", key="prune:unknown")
            except pyhf.exceptions.InvalidWorkspaceOperation:
                env.holds(f"prune-unknown{list(bad)}", True, key="prune:unknown")

    def rename(env):
        env.install_backend()
        w = _single(env, item[1])
        before = copy.deepcopy(w)
        W = pyhf.Workspace(w)
        poi = w["measurements"][0]["config"]["poi"]
        mods = sorted({m["name"] for _, _, m in shapes.walk_mods(w)} - {"lumi"})
        samples = sorted({s["name"] for c in w["channels"] for s in c["samples"]})
        chans_ = [c["name"] for c in w["channels"]]
        maps = [dict(modifiers={mods[0]: "zz_" + mods[0]}), dict(modifiers={poi: "new_poi"}), dict(samples={samples[0]: "a_first"}),
                dict(channels={chans_[0]: "zzz_chan"}), dict(measurements={"meas": "renamed_meas"}),
                dict(modifiers={mods[-1]: "m_x", poi: "p_x"}, channels={chans_[-1]: "AAA"}, samples={samples[-1]: "SSS"})]
        for k, mp in enumerate(maps):
            lab = f"rename{k}"
            R = W.rename(**mp)
            env.holds(f"{lab}:input-untouched", _same_structure(before, w) and _same_structure(before, dict(W)), key="rename:no-mutation")
            inv = {kk: {v: o for o, v in d.items()} for kk, d in mp.items()}
            back = R.rename(**inv)
            env.holds(f"{lab}:inverse", _same_structure(before, dict(back)), key="rename:inverse")
            mm = mp.get("modifiers", {})
            newpoi = mm.get(poi, poi)
            meas_name = mp.get("measurements", {}).get("meas", "meas")
            env.holds(f"{lab}:poi-follows", R.get_measurement(measurement_name=meas_name)["config"]["poi"] == newpoi, key="rename:poi")
            mA = W.model(measurement_name="meas")
            mB = R.model(measurement_name=meas_name)
            _same_logpdf(env, f"{lab}:likelihood", mA, mB, {v: o for o, v in mm.items()}, {v: o for o, v in mp.get("channels", {}).items()}, "rename:likelihood")
            dA, dB = W.data(mA), R.data(mB)
            env.holds(f"{lab}:data-multiset", sorted(map(id, dA[: mA.config.nmaindata])) == sorted(map(id, dB[: mB.config.nmaindata])), key="rename:data")
        for bad in (dict(modifiers={"nosuch": "x"}), dict(samples={"nosuch": "x"}), dict(channels={"nosuch": "x"}), dict(measurements={"nosuch": "x"})):
            try:
                W.rename(**bad)
                env.fail(f"rename-unknown{list(bad)}", "unknown name accepted", key="rename:unknown")
            except pyhf.exceptions.InvalidWorkspaceOperation:
                env.holds(f"rename-unknown{list(bad)}", True, key="rename:unknown")

    def sorted_(env):
        env.install_backend()
        w = _single(env, item[1])
        before = copy.deepcopy(w)
        W = pyhf.Workspace(w)
        S = pyhf.Workspace.sorted(W)
        env.holds("input-untouched", _same_structure(before, w) and _same_structure(before, dict(W)), key="sorted:no-mutation")
        env.holds("idempotent", _same_structure(dict(S), dict(pyhf.Workspace.sorted(S))), key="sorted:idempotent")
        _same_logpdf(env, "likelihood", W.model(), S.model(), {}, {}, "sorted:likelihood")
        # canonical under permutation of every list
        variants = []
        for p in itertools.permutations(range(len(w["channels"]))):
            v = copy.copy(w)
            v["channels"] = [w["channels"][i] for i in p]
            v["observations"] = list(reversed(w["observations"]))
            variants.append(v)
        v = copy.copy(w)
        v["channels"] = [dict(c, samples=[dict(s, modifiers=list(reversed(s["modifiers"]))) for s in reversed(c["samples"])]) for c in w["channels"]]
        v["measurements"] = [dict(m, config=dict(m["config"], parameters=list(reversed(m["config"]["parameters"])))) for m in reversed(w["measurements"])]
        variants.append(v)
        for k, v in enumerate(variants):
            env.holds(f"canonical[{k}]", _same_structure(dict(S), dict(pyhf.Workspace.sorted(pyhf.Workspace(v)))), key="sorted:canonical")

    def merge(env):
        """overlapping channel names with merge_channels=True: samples of both sides present, inputs untouched"""
        env.install_backend()
        wl = _ws(env, prefix="L_", meas="measL", chans=[channel("SR", sample("sigA", 2, normfactor(), normsys("xs"))), channel("CRL", sample("b", 1, normfactor("nb")))])
        wr = _ws(env, prefix="R_", meas="measR", chans=[channel("SR", sample("sigB", 2, normfactor(), histosys("h", 2)))])
        # the shared channel carries one observation: make them identical objects so that only the samples differ
        wr["observations"][0] = copy.deepcopy(wl["observations"][0])
        for join in ("outer", "left outer", "right outer"):
            bl, br = copy.deepcopy(wl), copy.deepcopy(wr)
            WL, WR = pyhf.Workspace(wl), pyhf.Workspace(wr)
            sl, sr = copy.deepcopy(dict(WL)), copy.deepcopy(dict(WR))
            try:
                WC = pyhf.Workspace.combine(WL, WR, join=join, merge_channels=True)
            except Exception as e:  # noqa: BLE001
                env.fail(f"merge[{join}]", f"{type(e).__name__}: {str(e)[:120]}", key=f"merge:{join}:refused")
                continue
            env.holds(f"merge[{join}]:inputs-untouched", _same_structure(bl, wl) and _same_structure(br, wr) and _same_structure(sl, dict(WL)) and _same_structure(sr, dict(WR)),
                      key=f"merge:{join}:no-mutation")
            sr_ = [c for c in WC["channels"] if c["name"] == "SR"]
            env.holds(f"merge[{join}]:one-merged-channel", len(sr_) == 1, key=f"merge:{join}:content")
            if len(sr_) == 1:
                got = {s["name"]: s for s in sr_[0]["samples"]}
                env.holds(f"merge[{join}]:samples", sorted(got) == ["sigA", "sigB"], key=f"merge:{join}:content")
                if sorted(got) == ["sigA", "sigB"]:
                    env.holds(f"merge[{join}]:sample-content", _same_structure(got["sigA"], wl["channels"][0]["samples"][0]) and _same_structure(got["sigB"], wr["channels"][0]["samples"][0]), key=f"merge:{join}:content")
            # the inputs still build their own models afterwards
            for nm, W, nsamp in (("left", WL, ["b", "sigA"]), ("right", WR, ["sigB"])):
                m = W.model()
                env.holds(f"merge[{join}]:{nm}-model-samples", sorted(m.config.samples) == nsamp, key=f"merge:{join}:no-mutation")
        # same-named sample of different content on both sides of the shared channel: which definition wins is not settled by
        # the statement, but an accepted result must be a workspace that has a likelihood (one definition per sample name, every
        # private sample kept, model constructible), and the inputs stay untouched
        wl2 = _ws(env, prefix="L2_", meas="measL", chans=[channel("SR", sample("sig", 2, normfactor()), sample("bkg", 2, normsys("xs")))])
        wr2 = _ws(env, prefix="R2_", meas="measR", chans=[channel("SR", sample("bkg", 2, normsys("xs")), sample("fakes", 2, normfactor("nf")))])
        wr2["observations"][0] = copy.deepcopy(wl2["observations"][0])
        for join in ("outer", "left outer", "right outer"):
            bl, br = copy.deepcopy(wl2), copy.deepcopy(wr2)
            WL, WR = pyhf.Workspace(wl2), pyhf.Workspace(wr2)
            try:
                WC = pyhf.Workspace.combine(WL, WR, join=join, merge_channels=True)
            except pyhf.exceptions.InvalidWorkspaceOperation:
                env.holds(f"merge-clash[{join}]:refused", True, key=f"merge-clash:{join}")
                continue
            except Exception as e:  # noqa: BLE001
                env.fail(f"merge-clash[{join}]", f"{type(e).__name__}: {str(e)[:120]}", key=f"merge-clash:{join}")
                continue
            env.holds(f"merge-clash[{join}]:inputs-untouched", _same_structure(bl, wl2) and _same_structure(br, wr2), key=f"merge-clash:{join}")
            sr_ = [c for c in WC["channels"] if c["name"] == "SR"]
            env.holds(f"merge-clash[{join}]:one-merged-channel", len(sr_) == 1, key=f"merge-clash:{join}")
            if len(sr_) == 1:
                names = sorted(s["name"] for s in sr_[0]["samples"])
                env.holds(f"merge-clash[{join}]:one-definition-per-sample", len(names) == len(set(names)), key=f"merge-clash:{join}")
                env.holds(f"merge-clash[{join}]:private-samples-kept", {"sig", "fakes"} <= set(names), key=f"merge-clash:{join}")
                for s in sr_[0]["samples"]:
                    if s["name"] == "bkg":
                        env.holds(f"merge-clash[{join}]:bkg-is-an-input-definition", _same_structure(s, wl2["channels"][0]["samples"][1]) or _same_structure(s, wr2["channels"][0]["samples"][0]), key=f"merge-clash:{join}")
            try:
                m = WC.model(measurement_name=WC.measurement_names[0])
                env.holds(f"merge-clash[{join}]:model-builds", len(set(m.config.samples)) == len(m.config.samples), key=f"merge-clash:{join}")
            except Exception as e:  # noqa: BLE001
                env.fail(f"merge-clash[{join}]:model-builds", f"{type(e).__name__}: {str(e)[:120]}", key=f"merge-clash:{join}")

    return {"combine": combine, "refuse": refuse, "prune": prune, "rename": rename, "sorted": sorted_, "merge": merge, "main-measurement": main_measurement}[kind]


def _present(w, sel):
    mods = {m["name"] for _, _, m in shapes.walk_mods(w)}
    types = {m["type"] for _, _, m in shapes.walk_mods(w)}
    samples = {s["name"] for c in w["channels"] for s in c["samples"]}
    chans = {c["name"] for c in w["channels"]}
    meas = {m["name"] for m in w["measurements"]}
    return (all(x in mods for x in sel.get("modifiers", [])) and all(x in types for x in sel.get("modifier_types", []))
            and all(x in samples for x in sel.get("samples", [])) and all(x in chans for x in sel.get("channels", []))
            and all(x in meas for x in sel.get("measurements", [])))


def _ref_prune(w, modifiers=(), modifier_types=(), samples=(), channels=(), measurements=()):
    """independent reference: remove exactly the named items"""
    out = {"channels": [], "measurements": [], "observations": [], "version": w["version"]}
    for c in w["channels"]:
        if c["name"] in channels:
            continue
        cc = {"name": c["name"], "samples": []}
        for s in c["samples"]:
            if s["name"] in samples:
                continue
            cc["samples"].append({"name": s["name"], "data": s["data"],
                                  "modifiers": [m for m in s["modifiers"] if m["name"] not in modifiers and m["type"] not in modifier_types]})
        out["channels"].append(cc)
    for m in w["measurements"]:
        if m["name"] in measurements:
            continue
        out["measurements"].append({"name": m["name"], "config": {"parameters": [p for p in m["config"]["parameters"] if p["name"] not in modifiers],
                                                                     "poi": m["config"]["poi"]}})
    for o in w["observations"]:
        if o["name"] not in channels:
            out["observations"].append(o)
    return out

"""C01 - expected event rates follow the HistFactory rate formula."""
from __future__ import annotations

import numpy as np

import pyhf

from .. import oracle, shapes
from . import common

ID = "C01"
BUDGET = {"quick": dict(max_paths=64, timeout_ms=20000, cell_limit=4096),
          "thorough": dict(max_paths=256, timeout_ms=120000, cell_limit=65536)}
TWIN_EVERY = {"quick": 6, "thorough": 12}
VALIDATE_EVERY = {"quick": 3, "thorough": 6}

META = {
    "assumptions": [
        "scalar arithmetic over the reals; pow/log/sqrt uninterpreted with true axiom instances",
        "nominal yields, normsys factors, uncertainties > 0 (placeholders), histosys lo/hi unconstrained reals, clip thresholds >= 0",
        "the interpolation function applied to one (alpha, lo, nom, hi) is the real interpolator class called on that triple in isolation (tied to the published formula for all alpha by the 'interp' items, which run C03's formula obligations); C01 decides which parameter and which data reach which (sample, bin) cell",
        "parameter identity by name through config.par_slice (slice arithmetic itself is C12)",
        "real numpy array semantics for masks / gather fields / einsum on object arrays",
    ],
    "bounds": {
        "quick": "family F (fixed core list: every modifier type alone, every pair on one sample, sharing across samples/channels/types, absent samples, zero-uncertainty bins, POI positions) + 24 seeded random shapes (<=3 channels x <=3 samples x <=3 bins x <=4 modifiers/sample); per shape 2 settings covering {code0,code2,code4p}x{code1,code4} x clip on/off x batch None/1/2; all parameters and data symbolic over R",
        "thorough": "family F x all 36 settings + 500 seeded random shapes (the last 300 with up to 4 bins and 5 modifiers per sample) x 3 settings",
    },
    "stubs": [],
    "outside_claim": ["jax/pytorch/tensorflow kernels", "floating-point rounding", "shapes beyond the stated family"],
}


def _family(tier, seed):
    fam = shapes.family_core()
    fam += shapes.family_plus(seed, 24 if tier == "quick" else 500)
    return fam


def items(tier, seed):
    out = []
    fam = _family(tier, seed)
    ncore = len(shapes.family_core())
    for i, sh in enumerate(fam):
        full = tier == "thorough" and i < ncore
        for st in common.settings_for(i, tier, full=full):
            out.append((i, sh["tag"], st))
    # the interpolation functions the cell oracle borrows from the real interpolators (on isolated triples) are themselves
    # tied to their published formulas for all alpha: C03's formula obligations, run here so that C01 is self-contained
    for code in ("code0", "code1", "code2", "code4", "code4p"):
        out.append(("interp", code, None))
    return out


def _cell_oracle(env, spec, mtype, mname, cname, sname, b, par, hcode, ncode, interp_fn, bidx):
    """factor / delta that modifier (mtype, mname) contributes to (channel, sample, bin); neutral if undeclared"""
    N = env.num
    neutral = N(0) if mtype == "histosys" else N(1)
    for c in spec["channels"]:
        if c["name"] != cname:
            continue
        for s in c["samples"]:
            if s["name"] != sname:
                continue
            for m in s["modifiers"]:
                if m["type"] == mtype and m["name"] == mname:
                    d = m["data"]
                    if mtype == "histosys":
                        return interp_fn(hcode, par(mname, 0), d["lo_data"][b], s["data"][b], d["hi_data"][b])
                    if mtype == "normsys":
                        return interp_fn(ncode, par(mname, 0), d["lo"], 1, d["hi"])
                    if mtype in ("normfactor", "lumi"):
                        return N(par(mname, 0))
                    return N(par(mname, bidx[(mtype, mname)][(cname, b)]))
    return neutral


def _nominal(env, spec, cname, sname, b):
    for c in spec["channels"]:
        if c["name"] == cname:
            for s in c["samples"]:
                if s["name"] == sname:
                    return env.num(s["data"][b]), True
    return env.num(0), False


def _layered(env, tb, spec, model, rows, batch, hcode, ncode, cs, cb, absent):
    """L2 (per modifier cell) + L3 (assembly on fresh modification symbols, incl. clipping)"""
    cfg = model.config
    mm = model.main_model
    N = env.num
    interp_fn = common.isolated_interp(env, tb)
    bidx = oracle.binwise_index(spec)
    pars_t = tb.astensor(rows if batch else rows[0])
    gbins = [(c, b) for c in cfg.channels for b in range(cfg.channel_nbins[c])]
    nrows = len(rows)
    # ---- L2: every cell of every applier ------------------------------------------------------
    shapes_seen = {}
    for mtype, applier in mm.modifiers_appliers.items():
        res = applier.apply(pars_t)
        mods = [m for (m, t) in cfg.modifiers if t == mtype]
        if res is None:
            if mods:
                env.fail(f"L2:{mtype}:none", "applier returned None although modifiers are declared", key="L2:none")
            continue
        want_shape = (len(mods), len(cfg.samples), nrows, len(gbins))
        if tuple(np.shape(res)) != want_shape:
            env.fail(f"L2:{mtype}:shape", f"{np.shape(res)} != {want_shape}", key="L2:shape")
            continue
        shapes_seen[mtype] = want_shape
        for mi, mname in enumerate(mods):
            for si, sname in enumerate(cfg.samples):
                for r in range(nrows):
                    par = common.par_lookup(model, rows[r])
                    for g, (c, b) in enumerate(gbins):
                        w = _cell_oracle(env, spec, mtype, mname, c, sname, b, par, hcode, ncode, interp_fn, bidx)
                        env.eq(f"L2[{mtype}/{mname},{sname},r{r},{c},{b}]", res[mi, si, r, g], w, key=f"L2:{mtype}")
    # ---- L3: assembly with the modifications replaced by fresh symbols ------------------------
    deltas, factors = [], []
    fresh = {}
    for mtype in mm._delta_mods + mm._factor_mods:
        if mtype not in shapes_seen:
            continue
        shp = shapes_seen[mtype]
        mods = [m for (m, t) in cfg.modifiers if t == mtype]
        arr = np.empty(shp, dtype=object)
        for mi in range(shp[0]):
            for si in range(shp[1]):
                for r in range(shp[2]):
                    for g, (c, b) in enumerate(gbins):
                        _, present = _nominal(env, spec, c, cfg.samples[si], b)
                        if present:
                            arr[mi, si, r, g] = env.sym(f"M_{mtype}_{mi}_{si}_{r}_{g}")
                        else:
                            arr[mi, si, r, g] = 0.0 if mtype == "histosys" else 1.0   # neutral by L2
        fresh[mtype] = arr
        (deltas if mtype in mm._delta_mods else factors).append(tb.astensor(arr.tolist()))
    saved = mm.modifications
    mm.modifications = lambda pars: (list(deltas), list(factors))
    try:
        tot = mm.expected_data(pars_t)
        bys = mm.expected_data(pars_t, return_by_sample=True)
    finally:
        mm.modifications = saved
    tot_rows = tot if batch else [tot]
    bys_rows = bys if batch else [bys]
    for r in range(nrows):
        for g, (c, b) in enumerate(gbins):
            acc = N(0)
            for si, sname in enumerate(cfg.samples):
                nom, present = _nominal(env, spec, c, sname, b)
                dsum = nom
                fprod = N(1)
                for mtype, arr in fresh.items():
                    for mi in range(arr.shape[0]):
                        if mtype in mm._delta_mods:
                            dsum = dsum + N(arr[mi, si, r, g])
                        else:
                            fprod = fprod * N(arr[mi, si, r, g])
                v = fprod * dsum
                if present:
                    if cs is not None:
                        v = env.ite(v < N(cs), N(cs), v)
                    k = "L3:by-sample"
                else:
                    # a sample that the channel does not list contributes nothing (stated under its own key)
                    v = N(0)
                    k = "L3:by-sample:clip+absent-sample"
                env.eq(f"L3:by-sample[r{r},{sname},{c},{b}]", bys_rows[r][si][g], v, key=k)
                # the bin total is checked against the per-sample cells the model itself reports (each of
                # which is tied to the formula by the obligation above): compositional, and the clip
                # conditions are then the same terms on both sides
                acc = acc + N(bys_rows[r][si][g])
            if cb is not None:
                acc = env.ite(acc < N(cb), N(cb), acc)
            env.eq(f"L3:rate[r{r},{c},{b}]", tot_rows[r][g], acc, key="L3:rate")


def harness_for(item):
    if item[0] == "interp":
        from . import c03
        return c03.harness_for(("formula", item[1], 1, 1, 1, 1))
    idx, tag, (hcode, ncode, clip, batch) = item

    def h(env):
        seed = env.seed
        sh = _family(env.tier, seed)[idx]
        assert sh["tag"] == tag
        tb = env.install_backend()
        spec, model, cs, cb = common.build_model(env, sh, hcode, ncode, clip, batch)
        cfg = model.config
        key = f"{tag}|{hcode},{ncode},clip={clip},batch={batch}"
        # layout: channels sorted, slices tile the main data in that order
        if list(cfg.channels) != oracle.channel_order(spec):
            env.fail("channel-order", f"{cfg.channels} vs sorted {oracle.channel_order(spec)}", key="layout:channel-order")
        pars = common.par_symbols(env, model, batch)
        rows = pars if batch else [pars]
        exp = model.expected_actualdata(tb.astensor(pars))
        bysample = model.main_model.expected_data(tb.astensor(pars), return_by_sample=True)
        exp_rows = exp if batch else [exp]
        bys_rows = bysample if batch else [bysample]
        if batch and np.shape(exp)[0] != batch:
            env.fail("batch-axis", f"shape {np.shape(exp)}", key="layout:batch-axis")
            return
        absent = common.has_absent_sample(spec)
        if clip:
            _layered(env, tb, spec, model, rows, batch, hcode, ncode, cs, cb, absent)
            return
        for r, row in enumerate(rows):
            want, want_s = oracle.rates(env, spec, common.par_lookup(model, row), hcode, ncode, cs, cb,
                                        interp_fn=common.isolated_interp(env, tb), by_sample=True)
            if len(exp_rows[r]) != cfg.nmaindata or cfg.nmaindata != len(want):
                env.fail("nmaindata", f"{len(exp_rows[r])} bins reported, {len(want)} declared", key="layout:nmaindata")
                return
            for c in cfg.channels:
                sl = cfg.channel_slices[c]
                nb = cfg.channel_nbins[c]
                if sl.stop - sl.start != nb:
                    env.fail(f"slice[{c}]", f"{sl} vs {nb} bins", key="layout:channel-slice")
                    continue
                for b in range(nb):
                    k = "rate" if not (clip and absent) else "rate:clip+absent-sample"
                    env.eq(f"rate[r{r},{c},{b}]", exp_rows[r][sl.start + b], want[(c, b)], key=k)
                    for si, sname in enumerate(cfg.samples):
                        w = want_s.get((c, sname, b))
                        if w is None:
                            # sample not declared in this channel: contributes nothing
                            w = env.num(0)
                            k2 = "by-sample:absent" if not clip else "by-sample:clip+absent-sample"
                        else:
                            k2 = "by-sample"
                        env.eq(f"by-sample[r{r},{sname},{c},{b}]", bys_rows[r][si][sl.start + b], w, key=k2)
    return h

"""C02 - the log-likelihood is exactly the HistFactory template."""
from __future__ import annotations

import numpy as np
import z3

import pyhf

from .. import decide, oracle, shapes
from ..sym import SV, zexpr
from . import common

ID = "C02"
BUDGET = {"quick": dict(max_paths=64, timeout_ms=20000), "thorough": dict(max_paths=256, timeout_ms=120000)}
TWIN_EVERY = {"quick": 5, "thorough": 10}
VALIDATE_EVERY = {"quick": 3, "thorough": 6}

META = {
    "assumptions": [
        "poisson_logpdf(n, lam) and normal_logpdf(x, mu, sigma) are uninterpreted (their numerics are C04): two log-densities are equal iff they are sums of the same applications with pairwise equal arguments (congruence by decomposition)",
        "the Poisson rate of bin b is the model's own expected_actualdata term (its correctness is C01)",
        "auxiliary data are free symbols independent of the parameters; main data are free reals",
        "nominal yields, uncertainties, normsys factors > 0; override values symbolic",
        "lemma (checked every run): the real numpy_backend.normal_logpdf / poisson_logpdf bodies executed on symbolic tensors are the textbook formulas",
    ],
    "bounds": {
        "quick": "family F (incl. measurement-level overrides of auxdata/sigmas/factors, zero-uncertainty bins, lumi) + 24 seeded random shapes; batch None/2; all parameters, main and auxiliary data symbolic over R",
        "thorough": "family F x batch None/1/2/3 + 500 seeded random shapes x batch None/1/2/3",
    },
    "stubs": ["log-density primitives uninterpreted"],
    "outside_claim": ["numerical values of the primitives (C04)", "other backends", "rounding"],
}


def _family(tier, seed):
    return shapes.family_core() + shapes.family_plus(seed, 24 if tier == "quick" else 500)


def items(tier, seed):
    out = [("lemma", "primitives", None)]
    for i, sh in enumerate(_family(tier, seed)):
        batches = (None, 2) if tier == "quick" else (None, 1, 2, 3)
        if tier == "quick":
            batches = (None,) if i % 3 else (None, 2)
        for b in batches:
            out.append((i, sh["tag"], b))
    out.append(("badkey", "override-of-unused-key", None))
    return out


def _apps(term):
    """sum of log-density applications -> list of (name, args)"""
    out = []
    for coef, t in decide.split_sum(zexpr(SV(term))):
        if t is None or coef != 1 or not decide.is_uf_app(t) or t.decl().name() not in ("poisson_logpdf", "normal_logpdf"):
            return None
        out.append((t.decl().name(), t.children()))
    return out


def harness_for(item):
    idx, tag, batch = item
    if idx == "lemma":
        return _lemma
    if idx == "badkey":
        return _badkey

    def h(env):
        sh = _family(env.tier, env.seed)[idx]
        assert sh["tag"] == tag
        tb = env.install_backend()
        spec, model, _, _ = common.build_model(env, sh, batch=batch)
        cfg = model.config
        N = env.num
        user = common.user_cfg(spec)
        pars = common.par_symbols(env, model, batch)
        nd = cfg.nmaindata + cfg.nauxdata
        data = [[env.sym(f"d{r}_{i}") for i in range(nd)] for r in range(batch)] if batch else [env.sym(f"d{i}") for i in range(nd)]
        rows = pars if batch else [pars]
        drows = data if batch else [data]
        lp = model.logpdf(tb.astensor(pars), tb.astensor(data))
        lam = model.expected_actualdata(tb.astensor(pars))
        lam_rows = lam if batch else [lam]
        if tuple(np.shape(lp)) != ((batch,) if batch else (1,)):
            env.fail("logpdf:shape", f"{np.shape(lp)}", key="logpdf:shape")
            return
        # aux layout
        offs, k = {}, cfg.nmaindata
        for n in cfg.auxdata_order:
            offs[n] = k
            k += cfg.param_set(n).n_parameters
        if k != nd:
            env.fail("auxdata:length", f"auxdata_order covers {k - cfg.nmaindata} components, nauxdata={cfg.nauxdata}", key="aux-layout")
            return
        for r, (prow, drow) in enumerate(zip(rows, drows)):
            terms = oracle.constraint_terms(env, spec, user, common.par_lookup(model, prow))
            if sorted(terms) != sorted(cfg.auxdata_order):
                env.fail(f"constrained-set[r{r}]", f"auxdata_order={cfg.auxdata_order} vs constrained parameters {sorted(terms)}", key="constrained-set")
                return
            # ----- oracle total / term list --------------------------------------------------------
            want = []   # (label, name, args)
            for b in range(cfg.nmaindata):
                want.append((f"main[{b}]", "poisson_logpdf", [N(drow[b]), N(lam_rows[r][b])]))
            for n in cfg.auxdata_order:
                for kk, t in enumerate(terms[n]):
                    aux = N(drow[offs[n] + kk])
                    if t[0] == "N":
                        want.append((f"cons[{n},{kk}]", "normal_logpdf", [aux, t[1], t[2]]))
                    else:
                        want.append((f"cons[{n},{kk}]", "poisson_logpdf", [aux, t[1] * t[2]]))
            main_d = tb.astensor(drow[: cfg.nmaindata])
            aux_d = tb.astensor(drow[cfg.nmaindata:])
            if env.mode == "sym":
                got = _apps(lp[r])
                if got is None:
                    env.fail(f"logpdf[r{r}]:form", "log-density is not a plain sum of Poisson/Normal log terms", key="logpdf:form")
                    continue
                pool = list(got)
                for label, fname, args in want:
                    a0 = zexpr(SV(args[0]))
                    hit = [g for g in pool if g[0] == fname and g[1][0].eq(a0)]
                    if not hit:
                        env.replay_as = f"{label}[r{r}]:" + ("rate" if fname == "poisson_logpdf" else "mean")
                        env.fail(f"{label}[r{r}]:present", f"no {fname} term on datum {a0}", key="logpdf:missing-term")
                        env.replay_as = None
                        continue
                    pool.remove(hit[0])
                    names = ("rate",) if fname == "poisson_logpdf" else ("mean", "sigma")
                    for nm, ga, wa in zip(names, hit[0][1][1:], args[1:]):
                        env.eq(f"{label}[r{r}]:{nm}", SV(ga), wa, key=f"logpdf:{label.split('[')[0]}:{nm}", validate=False)
                if pool:
                    env.replay_as = f"main[0][r{r}]:rate"
                    env.fail(f"logpdf[r{r}]:extra-terms", f"{len(pool)} unexpected log terms, e.g. {pool[0][0]}({pool[0][1][0]},...)", key="logpdf:extra-term")
                    env.replay_as = None
            else:
                tot = env.num(0)
                for label, fname, args in want:
                    tot = tot + env.uf(fname, *args)
                for label, fname, args in want:
                    names = ("rate",) if fname == "poisson_logpdf" else ("mean", "sigma")
                    for nm in names:
                        env.eq(f"{label}[r{r}]:{nm}", lp[r], tot, key=f"logpdf:{label.split('[')[0]}:{nm}", validate=False)
            if not batch:
                # main + constraint = full ; pdf = exp(logpdf) ; expected_auxdata ; config.auxdata
                ml = model.mainlogpdf(main_d, tb.astensor(prow))
                mwant = env.num(0)
                for label, fname, args in want[: cfg.nmaindata]:
                    mwant = mwant + env.uf(fname, *args)
                env.eq("mainlogpdf", ml, mwant, key="mainlogpdf")
                if cfg.nauxdata:
                    cl = model.constraint_logpdf(aux_d, tb.astensor(prow))
                    cwant = env.num(0)
                    for label, fname, args in want[cfg.nmaindata:]:
                        cwant = cwant + env.uf(fname, *args)
                    env.eq("constraint_logpdf", cl, cwant, key="constraint_logpdf")
                    env.eq("logpdf=main+constraint", lp[0], N(ml) + N(cl), key="logpdf-additivity")
                    ea = model.expected_auxdata(tb.astensor(prow))
                    ew = []
                    for n in cfg.auxdata_order:
                        for t in terms[n]:
                            ew.append(t[1] if t[0] == "N" else t[1] * t[2])
                    env.eq_all("expected_auxdata", ea, ew, key="expected_auxdata")
                    aw = [t[3] for n in cfg.auxdata_order for t in terms[n]]
                    env.eq_all("config.auxdata", [N(a) for a in cfg.auxdata], aw, key="config.auxdata")
                pdf = model.pdf(tb.astensor(prow), tb.astensor(drow))
                if env.mode == "sym":
                    env.eq("pdf=exp(logpdf)", pdf[0], SV(lp[0]).exp(), key="pdf-exp")
                else:
                    env.eq("pdf=exp(logpdf)", pdf[0], float(np.exp(lp[0])), key="pdf-exp")
                full = model.expected_data(tb.astensor(prow))
                env.eq_all("expected_data", full, [N(x) for x in lam_rows[0]] + (list(ew) if cfg.nauxdata else []), key="expected_data-layout")
    return h


def _lemma(env):
    """trusted-base reduction: the hand-written numpy log-density bodies are the textbook formulas"""
    from pyhf.tensor.numpy_backend import numpy_backend
    import sys
    nb = sys.modules["pyhf.tensor.numpy_backend"]
    tb = env.install_backend()
    x, mu = env.sym("x"), env.sym("mu")
    sg = env.sym("sigma", positive=True)
    n = env.sym("n", nonneg=True)
    lam = env.sym("lam", positive=True)
    N = env.num
    if env.mode == "sym":
        saved = (nb.np, nb.xlogy, nb.gammaln)

        class _NP:
            pi = None

            def __getattr__(self, k):
                return getattr(saved[0], k)

            @staticmethod
            def sqrt(v):
                return SV(v).sqrt()

            @staticmethod
            def log(v):
                return SV(v).log()

        npx = _NP()
        npx.pi = env.sym("PI", positive=True)
        nb.np = npx
        nb.xlogy = lambda a, b: env.uf("xlogy", a, b)
        nb.gammaln = lambda a: env.uf("gammaln", a)
        try:
            got_n = numpy_backend.normal_logpdf(tb, SV(x), SV(mu), SV(sg))
            got_p = numpy_backend.poisson_logpdf(tb, SV(n), SV(lam))
        finally:
            nb.np, nb.xlogy, nb.gammaln = saved
        pi = N(npx.pi)
        # -1/2 ((x-mu)/sigma)^2 - log(sqrt(2 pi) sigma)
        want_n = N(-1) / 2 * ((N(x) - N(mu)) / N(sg)) ** 2 - ((N(2) * pi).sqrt() * N(sg)).log()
        env.eq("normal_logpdf-body", got_n, want_n, key="lemma:normal", validate=False)
        env.eq("poisson_logpdf-body", got_p, env.uf("xlogy", n, lam) - N(lam) - env.uf("gammaln", N(n) + 1), key="lemma:poisson", validate=False)
    else:
        import mpmath
        got_n = numpy_backend.normal_logpdf(tb, x, mu, sg)
        got_p = numpy_backend.poisson_logpdf(tb, n, lam)
        env.eq("normal_logpdf-body", got_n, env.uf("normal_logpdf", x, mu, sg), key="lemma:normal", validate=False)
        env.eq("poisson_logpdf-body", got_p, env.uf("poisson_logpdf", n, lam), key="lemma:poisson", validate=False)


def _badkey(env):
    """an override of a key the parameter-set type does not use must be refused with InvalidModel"""
    env.install_backend()
    v = env.sym("v", positive=True)
    cases = [
        ("normsys:sigmas", [shapes.channel("c", shapes.sample("s", 1, shapes.normfactor(), shapes.normsys("k")))], {"name": "k", "sigmas": [v]}),
        ("normfactor:auxdata", [shapes.channel("c", shapes.sample("s", 1, shapes.normfactor(), shapes.normsys("k")))], {"name": "mu", "auxdata": [v]}),
        ("staterror:factors", [shapes.channel("c", shapes.sample("s", 1, shapes.normfactor(), shapes.staterror("e", 1)))], {"name": "e", "factors": [v]}),
        ("shapesys:sigmas", [shapes.channel("c", shapes.sample("s", 1, shapes.normfactor(), shapes.shapesys("u", 1)))], {"name": "u", "sigmas": [v]}),
    ]
    for label, chans, par in cases:
        spec = shapes.realize(env, {"channels": chans, "parameters": [par]})
        try:
            pyhf.Model(spec, poi_name="mu")
        except pyhf.exceptions.InvalidModel:
            env.holds(f"refused:{label}", True, key="override-unused-key")
        except Exception as e:  # noqa: BLE001
            env.fail(f"refused:{label}", f"raised {type(e).__name__} instead of InvalidModel", key="override-unused-key")
        else:
            env.fail(f"refused:{label}", "override of an unused key was accepted silently", key="override-unused-key")

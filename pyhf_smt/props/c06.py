"""C06 - profile-likelihood test statistics obey their case definitions."""
from __future__ import annotations

import numpy as np

import pyhf
from pyhf.infer import test_statistics as TS

from .. import shapes
from ..stubs import FitStubs
from . import common

ID = "C06"
BUDGET = {"quick": dict(max_paths=64, timeout_ms=20000), "thorough": dict(max_paths=256, timeout_ms=60000)}
TWIN_EVERY = {"quick": 3, "thorough": 3}
VALIDATE_EVERY = {"quick": 2, "thorough": 2}

META = {
    "assumptions": [
        "fit / fixed_poi_fit are replaced by contract stubs returning arbitrary symbolic parameter vectors and arbitrary symbolic objective values (contract: the fixed fit returns the POI at the requested value, the free fit's POI lies within the bounds it was given); honesty of the objective value is C05",
        "the clause 'zero when the tested value is the best-fit value' is proved under the exact-minimiser contract (mu_hat = mu implies equal objective values)",
        "tested mu, data, both fitted vectors, both objective values and the POI bounds are solver symbols",
    ],
    "bounds": {
        "quick": "5 statistics x POI lower bound {0, negative symbol} x return_fitted_pars x 3 models (POI first / last / multi-channel); all values symbolic; 5 three-call sequences on one model and data tensor with per-call settings (thorough: all 25 ordered pairs)",
        "thorough": "same (the claim is not shape-dependent beyond poi_index) on 8 models",
    },
    "stubs": ["pyhf.infer.test_statistics.fit", "pyhf.infer.test_statistics.fixed_poi_fit"],
    "outside_claim": ["closed-form numeric values of the statistics (need the real fits)"],
}

STATS = {"qmu": TS.qmu, "qmu_tilde": TS.qmu_tilde, "q0": TS.q0, "tmu": TS.tmu, "tmu_tilde": TS.tmu_tilde}
MODELS = ["single:normsys", "poi:last", "rich", "share:histosys-channels", "single:shapesys", "pair:histosys+staterror", "share:lumi", "absent-sample"]


def items(tier, seed):
    out = []
    nm = 3 if tier == "quick" else 8
    for stat in STATS:
        for lo0 in (True, False):
            for rfp in (False, True):
                for m in MODELS[:nm]:
                    out.append((stat, lo0, rfp, m))
    out.append(("get_test_stat", None, None, None))
    # call sequences on one model and one data tensor with different settings per call (no state may leak between calls)
    pairs = [("qmu_tilde", "qmu"), ("qmu", "tmu"), ("tmu_tilde", "q0"), ("q0", "qmu_tilde"), ("tmu", "tmu")]
    for a, b in pairs if tier == "quick" else [(x, y) for x in STATS for y in STATS]:
        out.append(("sequence", a, b, MODELS[0]))
    return out


def _model(env, tag):
    sh = next(s for s in shapes.family_core() if s["tag"] == tag)
    spec = shapes.realize(env, sh["spec"])
    return pyhf.Model(spec, poi_name=sh["poi"])


def oracle_stat(env, stat, mu, muhat, v_fixed, v_free):
    N = env.num
    d = N(v_fixed) - N(v_free)
    t = env.ite(d > 0, d, N(0))
    if stat in ("qmu", "qmu_tilde"):
        return env.ite(N(muhat) > N(mu), N(0), t)
    if stat == "q0":
        return env.ite(N(muhat) < 0, N(0), t)
    return t


def _sequence(env, first, second, mtag):
    """two (then a third, repeating the first) statistic calls on the same model object and the same data tensor, each
    with its own init / bounds / fixed mask and tested value: every call runs its own two fits with its own settings and
    its value follows from those two fits alone"""
    tb = env.install_backend()
    model = _model(env, mtag)
    cfg = model.config
    pi = cfg.poi_index
    N = env.num
    data = tb.astensor([env.sym(f"d{i}") for i in range(cfg.nmaindata + cfg.nauxdata)])
    for k, stat in enumerate((first, second, first)):
        init = [env.sym(f"c{k}_init{i}") for i in range(cfg.npars)]
        bounds = [[env.sym(f"c{k}_lo{i}"), env.sym(f"c{k}_hi{i}")] for i in range(cfg.npars)]
        lo = 0.0 if k == 0 else env.sym(f"c{k}_poi_lo")
        hi = env.sym(f"c{k}_poi_hi", positive=True)
        if k:
            env.assume(N(lo) < 0)
        bounds[pi] = [lo, hi]
        fixed = [bool((i + k) % 2) and i != pi for i in range(cfg.npars)]
        mu = env.sym(f"c{k}_mu")
        env.assume(N(mu) >= N(lo))
        env.assume(N(mu) <= N(hi))
        stubs = FitStubs(env, prefix=f"c{k}")
        with stubs.install():
            val = STATS[stat](mu, data, model, init, bounds, fixed)
        key = f"sequence:{first}>{second}"
        kinds = [c["kind"] for c in stubs.calls]
        if kinds != ["fixed", "free"]:
            env.fail(f"call{k}:fits", f"expected one fixed-POI fit then one free fit in this call, got {kinds}", key=f"{key}:fits")
            return
        cf, cu = stubs.calls
        tested = env.num(0) if stat == "q0" else N(mu)
        env.eq(f"call{k}:fixed-fit@tested-mu", cf["poi_val"], tested, key=f"{key}:tested-mu")
        for c, nm in ((cf, "fixed"), (cu, "free")):
            env.holds(f"call{k}:{nm}-fit:own-settings", c["data"] is data and c["init"] is init and c["bounds"] is bounds and c["fixed"] is fixed, key=f"{key}:fit-args")
        env.eq(f"call{k}:value", val, oracle_stat(env, stat, tested, cu["pars"][pi], cf["v"], cu["v"]), key=f"{key}:value")


def harness_for(item):
    stat, lo0, rfp, mtag = item
    if stat == "get_test_stat":
        return _mapping
    if stat == "sequence":
        return lambda env: _sequence(env, item[1], item[2], item[3])

    def h(env):
        tb = env.install_backend()
        model = _model(env, mtag)
        cfg = model.config
        pi = cfg.poi_index
        N = env.num
        init = [env.sym(f"init{i}") for i in range(cfg.npars)]
        bounds = [[env.sym(f"lo{i}"), env.sym(f"hi{i}")] for i in range(cfg.npars)]
        hi = env.sym("poi_hi", positive=True)
        lo = 0.0 if lo0 else env.sym("poi_lo")
        if not lo0:
            env.assume(N(lo) < 0)
        bounds[pi] = [lo, hi]
        fixed = [bool(i % 2) and i != pi for i in range(cfg.npars)]
        mu = env.sym("mu_test")
        env.assume(N(mu) >= N(lo))
        env.assume(N(mu) <= N(hi))
        data = tb.astensor([env.sym(f"d{i}") for i in range(cfg.nmaindata + cfg.nauxdata)])
        stubs = FitStubs(env)
        with stubs.install():
            out = STATS[stat](mu, data, model, init, bounds, fixed, return_fitted_pars=rfp)
        if rfp:
            if not (isinstance(out, tuple) and len(out) == 2 and len(out[1]) == 2):
                env.fail("layout", "return_fitted_pars=True must give (stat, (fixed_fit_pars, free_fit_pars))", key=f"{stat}:layout")
                return
            val, (pf, pu) = out
        else:
            val = out
        if len(stubs.calls) != 2 or stubs.calls[0]["kind"] != "fixed" or stubs.calls[1]["kind"] != "free":
            env.fail("fits", f"expected one fixed-POI fit then one free fit, got {[c['kind'] for c in stubs.calls]}", key=f"{stat}:fits")
            return
        cf, cu = stubs.calls
        tested = env.num(0) if stat == "q0" else N(mu)
        env.eq("fixed-fit@tested-mu", cf["poi_val"], tested, key=f"{stat}:tested-mu")
        for c, nm in ((cf, "fixed"), (cu, "free")):
            env.holds(f"{nm}-fit:same-data", c["data"] is data, key=f"{stat}:fit-args")
            env.holds(f"{nm}-fit:caller-settings", c["init"] is init and c["bounds"] is bounds and c["fixed"] is fixed, key=f"{stat}:fit-args")
            env.holds(f"{nm}-fit:asks-objective", c["return_fitted_val"] is True, key=f"{stat}:fit-args")
        muhat = cu["pars"][pi]
        want = oracle_stat(env, stat, tested, muhat, cf["v"], cu["v"])
        env.eq("value", val, want, key=f"{stat}:value")
        env.holds("non-negative", N(val) >= 0, key=f"{stat}:nonneg")
        if stat in ("qmu", "qmu_tilde"):
            env.holds("one-sided-zero", (~(N(muhat) > N(mu))) | (N(val) == 0) if env.mode == "sym" else (not muhat > mu) or float(val) == 0, key=f"{stat}:one-sided")
        if stat == "q0":
            env.holds("discovery-zero", (~(N(muhat) < 0)) | (N(val) == 0) if env.mode == "sym" else (not muhat < 0) or float(val) == 0, key=f"{stat}:one-sided")
        # exact-minimiser contract: tested value = best-fit value (and hence equal objectives) -> 0
        if env.mode == "sym":
            env.holds("zero-at-best-fit", (~(N(muhat) == tested)) | (~(N(cf["v"]) == N(cu["v"]))) | (N(val) == 0), key=f"{stat}:zero-at-best-fit")
        else:
            env.holds("zero-at-best-fit", (not float(muhat) == float(tested.v)) or (cf["v"] != cu["v"]) or float(val) == 0, key=f"{stat}:zero-at-best-fit")
        if rfp:
            env.eq_all("returned-fixed-fit-pars", pf, [N(x) for x in cf["pars"]], key=f"{stat}:returned-pars")
            env.eq_all("returned-free-fit-pars", pu, [N(x) for x in cu["pars"]], key=f"{stat}:returned-pars")
        # no POI -> UnspecifiedPOI
        m2 = pyhf.Model(model.spec, poi_name=None)
        try:
            with FitStubs(env, prefix="nopoi").install():
                STATS[stat](mu, data, m2, init, bounds, fixed)
            env.fail("no-poi", "accepted a model without POI", key=f"{stat}:no-poi")
        except pyhf.exceptions.UnspecifiedPOI:
            env.holds("no-poi", True, key=f"{stat}:no-poi")
        except Exception as e:  # noqa: BLE001
            env.fail("no-poi", f"raised {type(e).__name__}", key=f"{stat}:no-poi")
    return h


def _mapping(env):
    env.install_backend()
    from pyhf.infer import utils
    want = {"q0": TS.q0, "q": TS.qmu, "qtilde": TS.qmu_tilde}
    for k, f in want.items():
        env.holds(f"map[{k}]", utils.get_test_stat(k) is f, key="get_test_stat")
    for bad in ("qmu", "t", "Q0", "", "q_tilde"):
        try:
            utils.get_test_stat(bad)
            env.fail(f"reject[{bad}]", "unknown test statistic name accepted", key="get_test_stat")
        except pyhf.exceptions.InvalidTestStatistic:
            env.holds(f"reject[{bad}]", True, key="get_test_stat")

"""C20 - structurally inconsistent specifications are refused, never partly evaluated."""
from __future__ import annotations

import copy
import inspect

import numpy as np

import pyhf

from .. import oracle, shapes
from ..shapes import channel, histosys, lumi, normfactor, normsys, sample, shapefactor, shapesys, staterror
from . import common

ID = "C20"
BUDGET = {"quick": dict(max_paths=64, timeout_ms=20000), "thorough": dict(max_paths=256, timeout_ms=60000)}
TWIN_EVERY = {"quick": 10, "thorough": 20}
VALIDATE_EVERY = {"quick": 10, "thorough": 20}

META = {
    "assumptions": [
        "verdict rule: construction must either raise an exception class defined in pyhf.exceptions, or yield a model whose rates equal the HistFactory formula of the spec as written (every listed channel its bins, every listed sample its yields, every listed modifier its factor) for all parameter values; a foreign exception, an AssertionError, or acceptance with a mismatch is a violation",
        "for fault classes whose spec has no meaning as written (length mismatches, conflicting parameter demands, wrong-length overrides, undefined/multi-component POI, lumi without settings) acceptance itself is the violation",
        "values are symbolic (yields, variations, uncertainties > 0), names concrete; the fault position is enumerated",
    ],
    "bounds": {
        "quick": "7 well-formed base shapes (1-2 channels, 1-3 samples, 1-3 bins) x 10 fault classes x every applicable position (single faults)",
        "thorough": "every single fault at every position of the six bases, of every member of family F whose POI is mu and of 24 seeded shapes (about 2100 faulty specifications)",
    },
    "stubs": [],
    "outside_claim": ["faults outside the nine listed classes", "names decided equal symbolically (N-engine) - here duplicates are injected concretely at every position"],
}

PYHF_EXC = tuple(c for _, c in inspect.getmembers(pyhf.exceptions, inspect.isclass) if issubclass(c, Exception) and c.__module__ == "pyhf.exceptions")


def bases(tier="quick", seed=0):
    B = []
    B.append(("b1", [channel("SR", sample("sig", 2, normfactor()), sample("bkg", 2, histosys("h", 2), normsys("k"), staterror("st_SR", 2)))], None))
    B.append(("b2", [channel("SR", sample("sig", 2, normfactor()), sample("bkg", 2, shapesys("u", 2), normsys("k"))),
                     channel("CR", sample("bkg", 3, normsys("k"), shapefactor("sf"), staterror("st_CR", 3)))], None))
    B.append(("b3", [channel("A", sample("s", 1, normfactor(), lumi()), sample("b", 1, lumi(), histosys("h", 1)))], [shapes.LUMICFG]))
    B.append(("b4", [channel("A", sample("s", 2, normfactor()), sample("b", 2, shapefactor("sf"))),
                     channel("B", sample("b", 2, shapefactor("sf"), staterror("stB", 2)), sample("c", 2, staterror("stB", 2)))], None))
    B.append(("b5", [channel("A", sample("s", 3, normfactor(), histosys("h", 3)), sample("b", 3, histosys("h", 3), shapesys("u", 3)))], None))
    B.append(("b6", [channel("Z", sample("s", 1, normfactor())), channel("Y", sample("s", 2, normfactor(), normsys("k")), sample("b", 2, normsys("k")))], None))
    B.append(("b7", [channel("CR", sample("a", 2, normfactor()), sample("bkg", 2, normsys("k"))),
                     channel("SR", sample("a", 2, normfactor()), sample("bkg", 2, normsys("k"), normfactor("nb")))], None))
    if tier != "quick":
        # thorough: every member of family F whose POI is "mu" and 24 seeded shapes as further bases
        for sh in shapes.family_core() + shapes.family_plus(seed, 24):
            if sh.get("poi") == "mu":
                B.append(("F:" + sh["tag"], sh["spec"]["channels"], sh["spec"].get("parameters")))
    return B


def _datalen(m):
    t = m["type"]
    if t == "histosys":
        return len(m["data"]["lo_data"])
    if t in ("shapesys", "staterror"):
        return len(m["data"])
    return None


def faults(base):
    """yield (fault_class, position tag, mutated shape dict, meaning_as_written: bool)"""
    tag, chans, pars = base
    spec0 = {"channels": chans}
    if pars:
        spec0["parameters"] = pars
    out = []

    def emit(cls, pos, spec, meaningful, poi="mu"):
        out.append((cls, pos, {"spec": spec, "poi": poi}, meaningful))

    # 1 duplicate channel name (the copy gets its own data symbols)
    for ci, c in enumerate(chans):
        s = copy.deepcopy(spec0)
        s["channels"].insert(ci + 1, copy.deepcopy(c))
        emit("dup-channel", f"ch{ci}", s, True)
    # 2 duplicate sample name within a channel
    for ci, c in enumerate(chans):
        for si, smp in enumerate(c["samples"]):
            s = copy.deepcopy(spec0)
            dup = copy.deepcopy(smp)
            dup["modifiers"] = [m for m in dup["modifiers"] if m["type"] not in ("shapesys",)]
            s["channels"][ci]["samples"].append(dup)
            emit("dup-sample", f"ch{ci}.s{si}", s, True)
    # 3 the same (name, type) modifier twice on one sample (different data symbols)
    for ci, c in enumerate(chans):
        for si, smp in enumerate(c["samples"]):
            for mi, m in enumerate(smp["modifiers"]):
                s = copy.deepcopy(spec0)
                s["channels"][ci]["samples"][si]["modifiers"].append(copy.deepcopy(m))
                emit("dup-modifier:" + m["type"], f"ch{ci}.s{si}.m{mi}", s, True)
    # 4 data lengths that differ from the channel's bin count
    for ci, c in enumerate(chans):
        nb = len(c["samples"][0]["data"])
        for si, smp in enumerate(c["samples"]):
            if si > 0:
                for d in (+1, -1):
                    if nb + d >= 1:
                        s = copy.deepcopy(spec0)
                        s["channels"][ci]["samples"][si]["data"] = ["$n"] * (nb + d)
                        emit("len:sample", f"ch{ci}.s{si}{d:+d}", s, False)
                # ... and compensating pairs: the same sample one bin too long here and one too short in another channel
                for cj, c2 in enumerate(chans):
                    if cj == ci:
                        continue
                    nb2 = len(c2["samples"][0]["data"])
                    for sj, smp2 in enumerate(c2["samples"]):
                        if sj > 0 and smp2["name"] == smp["name"] and nb2 - 1 >= 1:
                            s = copy.deepcopy(spec0)
                            s["channels"][ci]["samples"][si]["data"] = ["$n"] * (nb + 1)
                            s["channels"][cj]["samples"][sj]["data"] = ["$n"] * (nb2 - 1)
                            emit("len:sample-pair", f"ch{ci}.s{si}+1/ch{cj}.s{sj}-1", s, False)
            for mi, m in enumerate(smp["modifiers"]):
                if _datalen(m) is None:
                    continue
                for d in (+1, -1):
                    if nb + d < 1:
                        continue
                    s = copy.deepcopy(spec0)
                    mm = s["channels"][ci]["samples"][si]["modifiers"][mi]
                    if m["type"] == "histosys":
                        mm["data"]["lo_data"] = ["$l"] * (nb + d)
                        mm["data"]["hi_data"] = ["$h"] * (nb + d)
                    else:
                        mm["data"] = ["$u"] * (nb + d)
                    emit("len:" + m["type"], f"ch{ci}.s{si}.m{mi}{d:+d}", s, False)
                if m["type"] == "histosys":
                    s = copy.deepcopy(spec0)
                    s["channels"][ci]["samples"][si]["modifiers"][mi]["data"]["hi_data"] = ["$h"] * (nb + 1)
                    emit("len:histosys-hi-only", f"ch{ci}.s{si}.m{mi}", s, False)
    # 5 a bin-wise modifier name shared between places with different bin counts / different samples
    s = copy.deepcopy(spec0)
    s["channels"].append(channel("ZZ3", sample("x3", 3, shapefactor("sfX"))))
    s["channels"].append(channel("ZZ2", sample("x2", 2, shapefactor("sfX"))))
    emit("binwise-shared:shapefactor-2v3", "appended", s, False)
    s = copy.deepcopy(spec0)
    s["channels"].append(channel("AA2", sample("x2", 2, shapefactor("sfX"))))
    s["channels"].append(channel("AA3", sample("x3", 3, shapefactor("sfX"))))
    emit("binwise-shared:shapefactor-3v2", "appended", s, False)
    # channels are processed in sorted-name order: make the wider place sort first, in both listing orders
    for tag, order in (("wide-first", ("AW3", "BN2")), ("wide-first-listed-last", ("BN2", "AW3"))):
        s = copy.deepcopy(spec0)
        for nm in order:
            nb = int(nm[-1])
            s["channels"].append(channel(nm, sample("x" + nm, nb, shapefactor("sfX"))))
        emit("binwise-shared:shapefactor-" + tag, "appended", s, False)
    s = copy.deepcopy(spec0)
    s["channels"].append(channel("ZZ3", sample("x3", 3, staterror("stX", 3))))
    s["channels"].append(channel("ZZ2", sample("y2", 2, staterror("stX", 2))))
    emit("binwise-shared:staterror-diff-samples", "appended", s, True)
    s = copy.deepcopy(spec0)
    s["channels"].append(channel("ZZ3", sample("x3", 3, shapesys("uX", 3))))
    s["channels"].append(channel("ZZ2", sample("x3", 2, shapesys("uX", 2))))
    emit("binwise-shared:shapesys", "appended", s, False)
    # ... a non-shareable (shapesys) name reused on two samples that are not next to each other in the walk over the spec
    s = copy.deepcopy(spec0)
    s["channels"].append(channel("ZZ1", sample("x1", 2, shapesys("uX", 2)), sample("x2", 2, normsys("kX")), sample("x3", 2, shapesys("uX", 2))))
    emit("binwise-shared:shapesys-nonadjacent", "appended", s, False)
    s = copy.deepcopy(spec0)
    s["channels"].append(channel("ZZ1", sample("x1", 2, shapesys("uX", 2)), sample("x2", 2, normsys("kX"))))
    s["channels"].append(channel("ZZ2", sample("x1", 1, shapesys("uX", 1))))
    emit("binwise-shared:shapesys-across-channels", "appended", s, False)
    # 6 one parameter name demanded with conflicting constraint types / sizes
    for (ta, tb) in (("normfactor", "normsys"), ("normsys", "shapesys"), ("histosys", "staterror"), ("shapefactor", "normfactor"),
                     ("lumi", "normsys"), ("shapesys", "staterror")):
        s = copy.deepcopy(spec0)
        nm = "lumi" if "lumi" in (ta, tb) else "clash"
        s["channels"].append(channel("QQ", sample("q1", 2, shapes.make_mod(ta, nm, 2)), sample("q2", 2, shapes.make_mod(tb, nm, 2))))
        if "lumi" in (ta, tb) and not pars:
            s["parameters"] = [shapes.LUMICFG]
        emit(f"conflict:{ta}+{tb}", "appended", s, False)
    # 7 override lists of the wrong length
    for key, val in (("inits", ["$x", "$x"]), ("bounds", [["$x", "$x"], ["$x", "$x"]]), ("auxdata", ["$x", "$x"])):
        s = copy.deepcopy(spec0)
        target = "k" if any(m["name"] == "k" for _, _, m in shapes.walk_mods(s)) else "h"
        if not any(m["name"] == target for _, _, m in shapes.walk_mods(s)):
            continue
        s.setdefault("parameters", [])
        s["parameters"] = [p for p in s["parameters"]] + [{"name": target, key: val}]
        emit(f"override-len:{key}", target, s, False)
    # 8 POI undefined / multi-component
    emit("poi:undefined", "nosuch", copy.deepcopy(spec0), False, poi="nosuch")
    for _, smp, m in shapes.walk_mods(spec0):
        if m["type"] in ("shapesys", "staterror", "shapefactor") and len(smp["data"]) >= 2:     # a one-bin set is a valid POI
            emit("poi:multi-component", m["name"], copy.deepcopy(spec0), False, poi=m["name"])
            break
    # 9 lumi modifier without luminosity settings
    s = copy.deepcopy(spec0)
    s.pop("parameters", None)
    s["channels"][0]["samples"][0]["modifiers"].append(lumi())
    emit("lumi-noconfig", "ch0.s0", s, False)
    # 10 luminosity settings present but incomplete (none of the four has a default)
    if any(m["type"] == "lumi" for _, _, m in shapes.walk_mods(spec0)):
        for drop in (("inits",), ("bounds",), ("auxdata",), ("sigmas",), ("inits", "bounds", "auxdata", "sigmas")):
            s = copy.deepcopy(spec0)
            for p in s.get("parameters", []):
                if p["name"] == "lumi":
                    for k in drop:
                        p.pop(k, None)
                    if len(drop) > 1:
                        p["fixed"] = True
            emit("lumi-partial", "+".join(drop) if len(drop) == 1 else "only-fixed", s, False)
    return out


def _all_items(tier, seed=0):
    out = []
    for b in bases(tier, seed):
        for k, (cls, pos, shape, meaningful) in enumerate(faults(b)):
            out.append((b[0], k, cls, pos))
    return out


def items(tier, seed):
    return _all_items(tier, seed)


def _rates_as_written(env, spec, par, interp_fn):
    """rates of every *listed* channel (duplicates included), in listing order per name"""
    N = env.num
    out = []
    for c in sorted(spec["channels"], key=lambda c: c["name"]):
        nb = len(c["samples"][0]["data"])
        bidx = oracle.binwise_index(spec)
        for b in range(nb):
            tot = N(0)
            for s in c["samples"]:
                delta, fac = N(s["data"][b]), N(1)
                for m in s["modifiers"]:
                    t, n, d = m["type"], m["name"], m["data"]
                    if t == "histosys":
                        delta = delta + interp_fn("code4p", par(n, 0), d["lo_data"][b], s["data"][b], d["hi_data"][b])
                    elif t == "normsys":
                        fac = fac * interp_fn("code4", par(n, 0), d["lo"], 1, d["hi"])
                    elif t in ("normfactor", "lumi"):
                        fac = fac * N(par(n, 0))
                    else:
                        fac = fac * N(par(n, bidx[(t, n)][(c["name"], b)]))
                tot = tot + fac * delta
            out.append(tot)
    return out


def harness_for(item):
    btag, k, cls, pos = item

    def h(env):
        base = [b for b in bases(env.tier, env.seed) if b[0] == btag][0]
        fcls, fpos, shape, meaningful = faults(base)[k]
        assert (fcls, fpos) == (cls, pos)
        tb = env.install_backend()
        spec = shapes.realize(env, shape["spec"])
        label = f"{cls}@{btag}:{pos}"
        try:
            model = pyhf.Model(spec, poi_name=shape["poi"])
        except PYHF_EXC as e:
            env.holds(f"refused:{label}", True, key=f"{cls}:refused")
            env.note(f"{cls}: refused with {type(e).__name__}")
            return
        except AssertionError as e:
            env.fail(f"assert:{label}", f"only guarded by an assertion: AssertionError {e}", key=f"{cls}:AssertionError")
            return
        except Exception as e:  # noqa: BLE001
            env.fail(f"foreign:{label}", f"construction raised {type(e).__name__}: {str(e)[:150]} (not a pyhf exception)", key=f"{cls}:{type(e).__name__}")
            return
        if not meaningful:
            env.fail(f"accepted:{label}", "inconsistent specification accepted as a model", key=f"{cls}:accepted")
            return
        # accepted: must equal the spec as written
        cfg = model.config
        pars = common.par_symbols(env, model)
        try:
            want = _rates_as_written(env, spec, common.par_lookup(model, pars), common.isolated_interp(env, tb))
            got = model.expected_actualdata(tb.astensor(pars))
        except Exception as e:  # noqa: BLE001
            env.fail(f"eval:{label}", f"accepted model cannot be evaluated as written: {type(e).__name__}: {str(e)[:120]}", key=f"{cls}:accepted-broken")
            return
        if len(got) != len(want):
            env.fail(f"dropped:{label}", f"accepted, but {len(want)} bins are declared and {len(got)} are modelled (content dropped)", key=f"{cls}:accepted-dropped")
            return
        for i, (g, w) in enumerate(zip(got, want)):
            env.eq(f"as-written:{label}[{i}]", g, w, key=f"{cls}:accepted-mismatch")
    return h

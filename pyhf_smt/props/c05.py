"""C05 - fits return a feasible, honest point (optimality/convergence outside)."""
from __future__ import annotations

import importlib
import itertools
import types

import numpy as np

import pyhf

from .. import shapes
from ..stubs import FakeMinuit, MinimizeStub, patched
from . import common

ID = "C05"
BUDGET = {"quick": dict(max_paths=128, timeout_ms=30000), "thorough": dict(max_paths=512, timeout_ms=120000)}
TWIN_EVERY = {"quick": 8, "thorough": 16}
VALIDATE_EVERY = {"quick": 8, "thorough": 16}

META = {
    "assumptions": [
        "scipy.optimize.minimize and iminuit.Minuit are replaced by contract stubs: the returned point is ANY point satisfying the bounds / equality constraints / fixed flags the optimiser was actually handed, with fun = the objective it was handed evaluated there; nothing about optimality or convergence",
        "caller's init values within the caller's bounds (what _validate_fit_inputs demands); init values, bounds, data, spec data, the POI value and the optimiser's answer are solver symbols",
        "log-density primitives uninterpreted: 'objective value equals twice the negative log-likelihood at the returned point' is equality of the two terms",
    ],
    "bounds": {
        "quick": "4 models (2-4 parameters) x every fixed mask x do_stitch in {False, True} x {scipy, minuit} wrappers x fit / fixed_poi_fit; return-flag combinations on one mask per model",
        "thorough": "every member of family F with a POI and 12 seeded shapes x every fixed mask (beyond 5 parameters: none, all, each single one and 16 seeded masks) x all flag combinations",
    },
    "stubs": ["pyhf.optimize.opt_scipy.scipy.optimize.minimize -> MinimizeStub", "pyhf.optimize.opt_minuit.iminuit.Minuit -> FakeMinuit"],
    "also": "the pure-Python objective body of the jax wrapper (opt_jax._final_objective) is executed symbolically for every fixed mask: it must equal twice_nll at the correctly stitched point",
    "outside_claim": [
        "'objective not higher than any other feasible point', 'the fit succeeds and attains the closed-form optimum', independence of optimiser / backend / gradient use: statements about SLSQP (Fortran/C) and MIGRAD (C++) iterations on floating-point objectives - no encoding within reach",
        "the jit / autodiff layers of opt_jax and the opt_pytorch / opt_tflow objective wrappers (compiled frameworks)",
    ],
}

MODELS = ["single:normsys", "pair:histosys+normsys", "single:shapesys", "poi:last", "pair:normsys+staterror", "share:histosys-channels"]
SPECFIXED = "pair:histosys+normsys"      # also run with one nuisance parameter declared fixed in the spec


def items(tier, seed):
    out = []
    nm = 4 if tier == "quick" else 6
    tags = MODELS[:nm]
    if tier != "quick":
        # every other member of family F that has a POI, and 12 seeded shapes (masks sampled when there are > 5 parameters)
        tags += [s["tag"] for s in shapes.family_core() if s.get("poi") and s["tag"] not in tags]
        tags += [s["tag"] for s in shapes.family_plus(seed, 12)]
    for tag in tags:
        for opt in ("scipy", "minuit"):
            for stitch in (False, True):
                for which in ("fit", "fixed_poi_fit"):
                    out.append((tag, opt, stitch, which))
    for opt in ("scipy", "minuit"):
        for stitch in (False, True):
            for which in ("fit", "fixed_poi_fit"):
                out.append((SPECFIXED + "+specfixed", opt, stitch, which))
    out.append(("jaxstitch", "scipy", True, "fit"))
    out.append(("flags", "scipy", False, "fit"))
    out.append(("flags", "minuit", True, "fit"))
    out.append(("failure", "scipy", False, "fit"))
    out.append(("failure", "minuit", False, "fit"))
    return out


def _model(env, tag):
    specfixed = tag.endswith("+specfixed")
    tag = tag.replace("+specfixed", "")
    fam = shapes.family_plus(env.seed, 12) if tag.startswith("rand") else shapes.family_core()
    sh = next(s for s in fam if s["tag"] == tag)
    spec = shapes.realize(env, sh["spec"])
    if specfixed:
        # the measurement declares a nuisance parameter fixed; a caller who passes its own mask overrides that
        name = sorted({m["name"] for _, _, m in shapes.walk_mods(spec)} - {sh["poi"]})[-1]
        spec = dict(spec, parameters=list(spec.get("parameters", [])) + [{"name": name, "fixed": True}])
    return pyhf.Model(spec, poi_name=sh["poi"])


def _optimizer(name):
    mod = importlib.import_module(f"pyhf.optimize.opt_{name}")
    return getattr(mod, f"{name}_optimizer")()


def _install(env, optname, success=True):
    stub = MinimizeStub(env, success=success)
    FakeMinuit.env = env
    FakeMinuit.instances = []
    FakeMinuit.valid_flag = success
    import scipy.optimize as so
    fake_scipy = types.SimpleNamespace(optimize=types.SimpleNamespace(minimize=stub, OptimizeResult=so.OptimizeResult))
    fake_iminuit = types.SimpleNamespace(Minuit=FakeMinuit)
    cm = patched(("pyhf.optimize.opt_scipy", "scipy", fake_scipy), ("pyhf.optimize.opt_minuit", "iminuit", fake_iminuit))
    return stub, cm


def _run_fit(env, model, optname, stitch, which, mask, tag, flags=None, success=True):
    tb = env.backend
    N = env.num
    cfg = model.config
    n = cfg.npars
    pi = cfg.poi_index
    bounds = [[env.sym(f"{tag}lo{i}"), env.sym(f"{tag}hi{i}")] for i in range(n)]
    init = [env.sym(f"{tag}init{i}") for i in range(n)]
    for i in range(n):
        env.assume(N(bounds[i][0]) <= N(init[i]))
        env.assume(N(init[i]) <= N(bounds[i][1]))
    fixed = [bool(m) for m in mask]
    data = [env.sym(f"{tag}d{i}") for i in range(cfg.nmaindata + cfg.nauxdata)]
    poi_val = env.sym(f"{tag}poi")
    if which == "fixed_poi_fit":
        env.assume(N(bounds[pi][0]) <= N(poi_val))
        env.assume(N(poi_val) <= N(bounds[pi][1]))
    init_snapshot = list(init)
    stub, cm = _install(env, optname, success)
    pyhf.set_backend(pyhf.tensorlib, custom_optimizer=_optimizer(optname))
    kw = dict(return_fitted_val=True, return_result_obj=True, do_stitch=stitch)
    if flags is not None:
        kw = dict(flags, do_stitch=stitch)
    if optname == "minuit" and flags is None:
        kw.update(return_uncertainties=True, return_correlations=True)
    with cm:
        if which == "fit":
            out = pyhf.infer.mle.fit(tb.astensor(data), model, init, bounds, fixed, **kw)
        else:
            out = pyhf.infer.mle.fixed_poi_fit(poi_val, tb.astensor(data), model, init, bounds, fixed, **kw)
    return dict(out=out, bounds=bounds, init=init_snapshot, fixed=fixed, data=data, poi_val=poi_val, stub=stub,
                minuits=list(FakeMinuit.instances), kw=kw)


def harness_for(item):
    mtag, optname, stitch, which = item
    if mtag == "flags":
        return lambda env: _flags(env, optname, stitch)
    if mtag == "jaxstitch":
        return _jaxstitch
    if mtag == "failure":
        return lambda env: _failure(env, optname)

    def h(env):
        env.install_backend()
        tb = env.backend
        N = env.num
        model = _model(env, mtag)
        cfg = model.config
        n, pi = cfg.npars, cfg.poi_index
        masks = list(itertools.product((0, 1), repeat=n))
        if env.tier == "quick" and n > 3:
            masks = masks[::2] + [masks[-1]]
        elif n > 5:
            import random
            rng = random.Random(f"{mtag}:{env.seed}")
            single = [tuple(int(i == j) for i in range(n)) for j in range(n)]
            masks = [masks[0], masks[-1]] + single + rng.sample(masks[1:-1], 16)
        for mk, mask in enumerate(masks):
            if which == "fit" and all(mask) and False:
                continue
            tag = f"m{mk}_"
            eff = list(mask)
            if which == "fixed_poi_fit":
                eff[pi] = 1
            try:
                r = _run_fit(env, model, optname, stitch, which, mask, tag)
            except Exception as e:  # noqa: BLE001
                if all(eff) and not isinstance(e, (AssertionError,)):
                    # no free parameter left: a degenerate request, outside "whenever the fit reports success"
                    env.note(f"fit with every parameter fixed ({optname}, do_stitch={stitch}) raises {type(e).__name__}: {str(e)[:80]}")
                    continue
                raise
            out = r["out"]
            key0 = f"{optname}:{'stitch' if stitch else 'nostitch'}:{which}"
            ml = "".join(map(str, mask))
            if optname == "minuit":
                if not (isinstance(out, tuple) and len(out) == 4):
                    env.fail(f"layout[{ml}]", "expected (pars+unc, correlations, fitted_val, result)", key=f"{key0}:layout")
                    continue
                pu, corr, val, res = out
                pars = [pu[i][0] for i in range(n)]
                unc = [pu[i][1] for i in range(n)]
            else:
                if not (isinstance(out, tuple) and len(out) == 3):
                    env.fail(f"layout[{ml}]", "expected (pars, fitted_val, result)", key=f"{key0}:layout")
                    continue
                pars, val, res = out
                corr = unc = None
            if len(pars) != n:
                env.fail(f"length[{ml}]", f"{len(pars)} parameters returned for a {n}-parameter model", key=f"{key0}:length")
                continue
            eff_fixed = list(r["fixed"])
            eff_init = list(r["init"])
            if which == "fixed_poi_fit":
                eff_fixed[pi] = True
                eff_init[pi] = r["poi_val"]
            for i in range(n):
                # (i) within the caller's bounds
                env.holds(f"bounds[{ml},{i}]", (N(pars[i]) >= N(r["bounds"][i][0])) & (N(pars[i]) <= N(r["bounds"][i][1])) if env.mode == "sym"
                          else float(r["bounds"][i][0]) - 1e-12 <= float(pars[i]) <= float(r["bounds"][i][1]) + 1e-12, key=f"{key0}:bounds")
                # (ii) fixed components exactly at the supplied value
                if eff_fixed[i]:
                    env.eq(f"fixed[{ml},{i}]", pars[i], eff_init[i], key=f"{key0}:fixed")
            # (iii) honest objective value
            want = pyhf.infer.mle.twice_nll(tb.astensor([env.raw(N(p)) for p in pars]), tb.astensor(r["data"]), model)
            env.eq(f"honest[{ml}]", val, want[0], key=f"{key0}:honest")
            env.eq(f"result.fun[{ml}]", res.fun, want[0], key=f"{key0}:honest")
            rx = res.x if optname == "scipy" else [res.x[i][0] for i in range(n)]
            env.eq_all(f"result.x[{ml}]", rx, [N(p) for p in pars], key=f"{key0}:result-x")
            # (v) what the optimiser was handed
            if optname == "scipy":
                c = r["stub"].calls[-1]
                nvar = n - sum(eff_fixed) if stitch else n
                env.holds(f"handed:nvars[{ml}]", len(c["x0"]) == nvar, key=f"{key0}:handed")
                # exactly the caller's fixed components (and the POI of a fixed-POI fit) are pinned - not the model's own
                # suggestion, not fewer
                want_pinned = [] if stitch else [i for i in range(n) if eff_fixed[i]]
                env.holds(f"handed:pinned[{ml}]", c["pinned"] == want_pinned, key=f"{key0}:handed-fixed-set")
                if not stitch:
                    for i in range(n):
                        env.eq(f"handed:x0[{ml},{i}]", c["x0"][i], eff_init[i], key=f"{key0}:handed")
                        env.eq(f"handed:lo[{ml},{i}]", c["bounds"][i][0], r["bounds"][i][0], key=f"{key0}:handed")
                        env.eq(f"handed:hi[{ml},{i}]", c["bounds"][i][1], r["bounds"][i][1], key=f"{key0}:handed")
                else:
                    vidx = [i for i in range(n) if not eff_fixed[i]]
                    for j, i in enumerate(vidx):
                        if j < len(c["x0"]):
                            env.eq(f"handed:x0[{ml},{i}]", c["x0"][j], eff_init[i], key=f"{key0}:handed")
                            env.eq(f"handed:lo[{ml},{i}]", c["bounds"][j][0], r["bounds"][i][0], key=f"{key0}:handed")
                            env.eq(f"handed:hi[{ml},{i}]", c["bounds"][j][1], r["bounds"][i][1], key=f"{key0}:handed")
            else:
                mn = r["minuits"][-1]
                # (iv) uncertainties / correlations of fixed parameters vanish, others are the optimiser's
                vidx = [i for i in range(n) if not eff_fixed[i]] if stitch else list(range(n))
                pos = {i: j for j, i in enumerate(vidx)}
                for i in range(n):
                    if eff_fixed[i]:
                        env.eq(f"unc-fixed[{ml},{i}]", unc[i], 0, key=f"{key0}:unc")
                    elif mn.errors is not None:
                        env.eq(f"unc-free[{ml},{i}]", unc[i], mn.errors[pos[i]], key=f"{key0}:unc")
                if corr is not None:
                    if tuple(np.shape(corr)) != (n, n):
                        env.fail(f"corr-shape[{ml}]", f"{np.shape(corr)}", key=f"{key0}:corr")
                    else:
                        for i in range(n):
                            for j in range(n):
                                if stitch and (eff_fixed[i] or eff_fixed[j]):
                                    env.eq(f"corr-fixed[{ml},{i},{j}]", corr[i][j], 0, key=f"{key0}:corr")
                                elif i in pos and j in pos:
                                    env.eq(f"corr-free[{ml},{i},{j}]", corr[i][j], mn._corr[pos[i]][pos[j]], key=f"{key0}:corr")
                env.holds(f"handed:fixed-flags[{ml}]", list(mn.fixed) == ([False] * len(vidx) if stitch else [bool(x) for x in eff_fixed]), key=f"{key0}:handed")
                for j, i in enumerate(vidx):
                    env.eq(f"handed:start[{ml},{i}]", mn.start[j], eff_init[i], key=f"{key0}:handed")
                    env.eq(f"handed:lo[{ml},{i}]", mn.limits[j][0], r["bounds"][i][0], key=f"{key0}:handed")
                    env.eq(f"handed:hi[{ml},{i}]", mn.limits[j][1], r["bounds"][i][1], key=f"{key0}:handed")
    return h


def _jaxstitch(env):
    """the (pure Python) objective body of the jax wrapper stitches fixed values exactly like the common shim"""
    import importlib
    oj = importlib.import_module("pyhf.optimize.opt_jax")
    env.install_backend()
    tb = env.backend
    N = env.num
    model = _model(env, "share:histosys-channels")
    cfg = model.config
    n = cfg.npars
    data = tb.astensor([env.sym(f"jd{i}") for i in range(cfg.nmaindata + cfg.nauxdata)])
    cases = []
    for mk, mask in enumerate(itertools.product((0, 1), repeat=n)):
        if not any(mask) or all(mask):
            continue
        fixed_idx = [i for i in range(n) if mask[i]]
        var_idx = [i for i in range(n) if not mask[i]]
        # all symbols first: a counterexample must carry a value for every one of them
        cases.append((mask, fixed_idx, var_idx, [env.sym(f"jf{mk}_{i}") for i in fixed_idx], [env.sym(f"jx{mk}_{i}") for i in var_idx]))
    ys = [env.sym(f"jy{i}") for i in range(n)]
    for mask, fixed_idx, var_idx, fv, xv in cases:
        got = oj._final_objective(tb.astensor(xv), data, tuple(fv), tuple(fixed_idx), tuple(var_idx), True, pyhf.infer.mle.twice_nll, model)
        full = [None] * n
        for i, v in zip(fixed_idx, fv):
            full[i] = v
        for i, v in zip(var_idx, xv):
            full[i] = v
        want = pyhf.infer.mle.twice_nll(tb.astensor(full), data, model)[0]
        env.eq(f"jax-objective[{''.join(map(str, mask))}]", np.asarray(got).reshape(-1)[0] if env.mode != "sym" else got, want, key="jax:stitch-objective")
    got = oj._final_objective(tb.astensor(ys), data, (), (), tuple(range(n)), False, pyhf.infer.mle.twice_nll, model)
    want = pyhf.infer.mle.twice_nll(tb.astensor(ys), data, model)[0]
    env.eq("jax-objective[nostitch]", got, want, key="jax:stitch-objective")


def _flags(env, optname, stitch):
    """result-tuple layout for every combination of return flags"""
    env.install_backend()
    N = env.num
    model = _model(env, "pair:histosys+normsys")
    n = model.config.npars
    for k, (rv, ro, ru, rc) in enumerate(itertools.product((False, True), repeat=4)):
        if optname == "scipy" and (ru or rc) and False:
            continue
        flags = dict(return_fitted_val=rv, return_result_obj=ro, return_uncertainties=ru, return_correlations=rc)
        r = _run_fit(env, model, optname, stitch, "fit", (0, 1, 0)[:n], f"f{k}_", flags=flags)
        out = r["out"]
        nextra = int(rc) + int(rv) + int(ro)
        label = f"flags[{int(rv)}{int(ro)}{int(ru)}{int(rc)}]"
        if nextra == 0:
            parts = [out]
            ok = not isinstance(out, tuple)
        else:
            ok = isinstance(out, tuple) and len(out) == 1 + nextra
            parts = list(out) if ok else []
        env.holds(f"{label}:length", ok, key=f"{optname}:layout")
        if not ok:
            continue
        pars = parts[0]
        want_shape = (n, 2) if (ru and optname == "minuit") else (n,)
        env.holds(f"{label}:pars-shape", tuple(np.shape(pars)) == want_shape, key=f"{optname}:layout")
        j = 1
        if rc:
            c = parts[j]
            env.holds(f"{label}:corr", (c is None) if optname == "scipy" else tuple(np.shape(c)) == (n, n), key=f"{optname}:layout")
            j += 1
        if rv:
            env.holds(f"{label}:val", np.shape(parts[j]) == (), key=f"{optname}:layout")
            j += 1
        if ro:
            env.holds(f"{label}:result", hasattr(parts[j], "x") and hasattr(parts[j], "fun"), key=f"{optname}:layout")


def _failure(env, optname):
    env.install_backend()
    model = _model(env, "single:normsys")
    try:
        _run_fit(env, model, optname, False, "fit", (0, 0), "fail_", success=False)
        env.fail("failed-minimisation", "optimiser reported failure but the fit returned normally", key=f"{optname}:failure")
    except pyhf.exceptions.FailedMinimization:
        env.holds("failed-minimisation", True, key=f"{optname}:failure")
    # initial value outside its bounds is refused
    tb = env.backend
    cfg = model.config
    try:
        with _install(env, optname)[1]:
            pyhf.infer.mle.fit(tb.astensor([env.sym(f"fd{i}") for i in range(cfg.nmaindata + cfg.nauxdata)]), model,
                               [20.0, 0.0], [[0.0, 10.0], [-5.0, 5.0]], [False, False])
        env.fail("init-outside-bounds", "accepted", key=f"{optname}:validate")
    except ValueError:
        env.holds("init-outside-bounds", True, key=f"{optname}:validate")

"""C10 - batched evaluation equals row-by-row evaluation."""
from __future__ import annotations

import numpy as np

import pyhf

from .. import shapes
from . import common

ID = "C10"
BUDGET = {"quick": dict(max_paths=64, timeout_ms=20000), "thorough": dict(max_paths=256, timeout_ms=120000)}
TWIN_EVERY = {"quick": 6, "thorough": 12}
VALIDATE_EVERY = {"quick": 3, "thorough": 6}

META = {
    "assumptions": [
        "scalar arithmetic over the reals; pow/log/sqrt and the log-density primitives uninterpreted",
        "sampling replaced by a stub returning a fresh symbolic tensor of shape sample_shape + parameter-tensor shape (only the shape clause of the property is about samples)",
        "equality with the unbatched model on row r for all values of all rows implies that no other row influences row r",
    ],
    "bounds": {
        "quick": "family F + 24 seeded random shapes; batch sizes 1..3 (rotating per shape); default and rotating interpolation codes; clipping on/off; all N x npars parameters and N datasets symbolic",
        "thorough": "family F x batch sizes 1..4 + 400 seeded random shapes x 2 batch sizes",
    },
    "stubs": ["poisson_dist(...).sample / normal_dist(...).sample -> fresh symbolic tensor of the documented shape"],
    "outside_claim": ["batch sizes beyond 4", "other backends", "distribution of samples (C14)"],
}


def _family(tier, seed):
    return shapes.family_core() + shapes.family_plus(seed, 24 if tier == "quick" else 400)


def items(tier, seed):
    out = []
    ncore = len(shapes.family_core())
    for i, sh in enumerate(_family(tier, seed)):
        if tier == "quick":
            ns = [(1, 2, 3)[i % 3]]
        else:
            ns = [1, 2, 3, 4] if i < ncore else [(2, 3)[i % 2], 1]
        for n in ns:
            h, nc = common.HCODES[i % 3], common.NCODES[i % 2]
            out.append((i, sh["tag"], n, h, nc, i % 4 == 1))
    return out


def harness_for(item):
    idx, tag, N, hcode, ncode, clip = item

    def h(env):
        sh = _family(env.tier, env.seed)[idx]
        tb = env.install_backend()
        spec_b, mb, _, _ = common.build_model(env, sh, hcode, ncode, clip, N)
        spec_u, mu, _, _ = common.build_model(env, sh, hcode, ncode, clip, None)
        cfg = mu.config
        if mb.config.npars != cfg.npars or mb.config.par_order != cfg.par_order:
            env.fail("config", "batched and unbatched models disagree on the parameter layout", key="config")
            return
        nd = cfg.nmaindata + cfg.nauxdata
        pars = [[env.sym(f"p{r}_{i}") for i in range(cfg.npars)] for r in range(N)]
        data = [[env.sym(f"d{r}_{i}") for i in range(nd)] for r in range(N)]
        P, D = tb.astensor(pars), tb.astensor(data)
        eb = mb.expected_data(P)
        ea = mb.expected_actualdata(P)
        lb = mb.logpdf(P, D)
        sb_ = mb.main_model.expected_data(P, return_by_sample=True)
        for nm, t, shp in (("expected_data", eb, (N, nd)), ("expected_actualdata", ea, (N, cfg.nmaindata)),
                           ("logpdf", lb, (N,)), ("by_sample", sb_, (N, len(cfg.samples), cfg.nmaindata))):
            if tuple(np.shape(t)) != shp:
                env.fail(f"shape:{nm}", f"{np.shape(t)} != {shp} (batch must be the leading axis)", key=f"shape:{nm}")
                return
        for r in range(N):
            pr, dr = tb.astensor(pars[r]), tb.astensor(data[r])
            eu = mu.expected_data(pr)
            lu = mu.logpdf(pr, dr)
            su = mu.main_model.expected_data(pr, return_by_sample=True)
            for k in range(nd):
                env.eq(f"expected_data[r{r},{k}]", eb[r][k], eu[k], key="row:expected_data")
            for k in range(cfg.nmaindata):
                env.eq(f"expected_actualdata[r{r},{k}]", ea[r][k], eu[k], key="row:expected_actualdata")
                for s in range(len(cfg.samples)):
                    env.eq(f"by_sample[r{r},{s},{k}]", sb_[r][s][k], su[s][k], key="row:by_sample")
            env.eq(f"logpdf[r{r}]", lb[r], lu[0], key="row:logpdf")
        # sampled-data shape
        for shp in ((), (3,), (2, 2)):
            sm = mb.make_pdf(P).sample(shp)
            if tuple(np.shape(sm)) != tuple(shp) + (N, nd):
                env.fail(f"sample-shape{shp}", f"{np.shape(sm)} != {tuple(shp) + (N, nd)}", key="sample-shape")
            else:
                env.holds(f"sample-shape{shp}", True, key="sample-shape")
            su_ = mu.make_pdf(tb.astensor(pars[0])).sample(shp)
            if tuple(np.shape(su_)) != tuple(shp) + (nd,):
                env.fail(f"sample-shape-unbatched{shp}", f"{np.shape(su_)} != {tuple(shp) + (nd,)}", key="sample-shape")
    return h

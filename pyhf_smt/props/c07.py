"""C07 - asymptotic p-values follow the formulae of arXiv:1007.1727."""
from __future__ import annotations

import numpy as np

import pyhf
from pyhf.infer import calculators as CALC

from .. import shapes
from ..stubs import patched
from . import common

ID = "C07"
BUDGET = {"quick": dict(max_paths=64, timeout_ms=30000), "thorough": dict(max_paths=256, timeout_ms=120000)}
TWIN_EVERY = {"quick": 1, "thorough": 1}
VALIDATE_EVERY = {"quick": 1, "thorough": 1}

META = {
    "assumptions": [
        "the observed statistic q >= 0 and its Asimov value q_A > 0 are solver symbols delivered by a stub in place of the test-statistic function (its case logic is C06, the wiring of fits and Asimov data is C08)",
        "Phi (normal cdf) and sqrt are uninterpreted with instantiated axioms: 0 < Phi < 1, Phi(0) = 1/2, Phi(-x) = 1 - Phi(x), strict monotonicity between any two applications; sqrt(x) >= 0, sqrt(x)^2 = x, monotone",
        "arithmetic over the reals: the 'representable in double precision below ~37 sigma' clause is outside",
    ],
    "bounds": {
        "quick": "{q, qtilde, q0} x {normal, clipped_normal}; q, q_A over all reals with q >= 0, q_A > 0 (both qtilde branches and the boundary q = q_A are cells of one query); N in {2,1,0,-1,-2}",
        "thorough": "same (no structural dimension to enlarge) plus call-order variations",
    },
    "stubs": ["pyhf.infer.utils.get_test_stat -> returns the stub statistic", "pyhf.infer.calculators.generate_asimov_data -> symbolic dataset"],
    "outside_claim": ["monotonicity of the five-point band (needs log-concavity of Phi, not entailed by the axioms)", "double-precision tail representability and rounding in general (exact rational arithmetic); the only float observation is the boundary step: the real numpy code at 24 seeded points pinned to q = 0 per item must not produce NaN/infinity where the exact value is finite (sampling, labelled :float-boundary)", "other backends"],
}


def items(tier, seed):
    out = []
    for ts in ("q", "qtilde", "q0"):
        for base in ("normal", "clipped_normal"):
            out.append((ts, base))
    for ts in ("q", "qtilde", "q0"):
        out.append((ts, "sequence"))
    out.append(("errors", None))
    return out


def _model(env):
    sh = next(s for s in shapes.family_core() if s["tag"] == "single:normsys")
    return pyhf.Model(shapes.realize(env, sh["spec"]), poi_name="mu")


class _StatStub:
    def __init__(self, env, model):
        self.env, self.model, self.calls = env, model, []

    def __call__(self, mu, data, pdf, init_pars, par_bounds, fixed_params, return_fitted_pars=False):
        env = self.env
        tb = pyhf.tensorlib
        k = len(self.calls)
        q = env.sym(f"q{k}", nonneg=True)
        if k == 1:
            env.assume(env.num(q) > 0)
        n = pdf.config.npars
        a = tb.astensor([env.sym(f"s{k}a{i}") for i in range(n)])
        b = tb.astensor([env.sym(f"s{k}b{i}") for i in range(n)])
        self.calls.append(dict(mu=mu, data=data, q=q, return_fitted_pars=return_fitted_pars))
        return (tb.astensor(q), (a, b)) if return_fitted_pars else tb.astensor(q)


def _phi(env, x):
    return env.uf("Phi", x)


def boundary(item):
    """case boundary of the observed statistic (q = 0: best-fit value on the far side of the tested one): the float
    implementation must still give finite p-values there (checked on the real numpy code, see harness.run_item)"""
    return [{"q0": 0}]


def harness_for(item):
    ts, base = item
    if ts == "errors":
        return _errors

    if base == "sequence":
        return lambda env: _sequence(env, ts)

    def h(env):
        tb = env.install_backend()
        N = env.num
        model = _model(env)
        cfg = model.config
        data = tb.astensor([env.sym(f"d{i}") for i in range(cfg.nmaindata + cfg.nauxdata)])
        asimov = tb.astensor([env.sym(f"A{i}") for i in range(cfg.nmaindata + cfg.nauxdata)])
        stat = _StatStub(env, model)
        calc = CALC.AsymptoticCalculator(data, model, test_stat=ts, calc_base_dist=base)
        mu = env.sym("mu_test")
        with patched(("pyhf.infer.utils", "get_test_stat", lambda name: stat),
                     ("pyhf.infer.calculators", "generate_asimov_data",
                      lambda amu, d, pdf, ip, pb, fp, return_fitted_pars=False: (asimov, tb.astensor([env.sym(f"ap{i}") for i in range(cfg.npars)])) if return_fitted_pars else asimov)):
            tstat = calc.teststatistic(mu)
        if len(stat.calls) != 2:
            env.fail("calls", f"{len(stat.calls)} test-statistic evaluations", key="calls")
            return
        env.holds("observed-stat-on-data", stat.calls[0]["data"] is data, key="wiring")
        env.holds("asimov-stat-on-asimov", stat.calls[1]["data"] is asimov, key="wiring")
        q, qA = N(stat.calls[0]["q"]), N(stat.calls[1]["q"])
        s, a = q.sqrt(), qA.sqrt()
        # ---- the transformed statistic -----------------------------------------------------------
        if ts in ("q", "q0"):
            want_t = s - a
        else:
            want_t = env.ite(q <= qA, s - a, (q - qA) / (2 * a))
        env.eq("teststat", tstat, want_t, key=f"{ts}:teststat")
        sb, b = calc.distributions(mu)
        CLsb, CLb, CLs = calc.pvalues(tstat, sb, b)
        if ts in ("q", "q0"):
            w_sb, w_b = 1 - _phi(env, s), 1 - _phi(env, s - a)
        else:
            w_sb = env.ite(q <= qA, 1 - _phi(env, s), 1 - _phi(env, (q + qA) / (2 * a)))
            w_b = env.ite(q <= qA, 1 - _phi(env, s - a), 1 - _phi(env, (q - qA) / (2 * a)))
            # the two branches agree at q = q_A
            if env.mode == "sym":
                env.sym_only = True
                env.holds("branches-agree@q=qA", (~(q == qA)) | ((1 - _phi(env, s) == 1 - _phi(env, (q + qA) / (2 * a))) & (1 - _phi(env, s - a) == 1 - _phi(env, (q - qA) / (2 * a)))), key=f"{ts}:branches-agree")
                env.sym_only = False
        env.eq("CLsb", CLsb, w_sb, key=f"{ts}:{base}:CLsb")
        env.eq("CLb", CLb, w_b, key=f"{ts}:{base}:CLb")
        env.eq("CLs", CLs, w_sb / w_b, key=f"{ts}:{base}:CLs")
        for nm, v in (("CLsb", CLsb), ("CLb", CLb), ("CLs", CLs)):
            env.holds(f"0<={nm}<=1", (N(v) >= 0) & (N(v) <= 1) if env.mode == "sym" else 0 <= float(v) <= 1, key=f"{ts}:{base}:range")
        env.holds("CLsb<=CLb", N(CLsb) <= N(CLb), key=f"{ts}:{base}:order")
        # ---- expected values ---------------------------------------------------------------------------
        e_sb, e_b, e_s = calc.expected_pvalues(sb, b)
        if not (len(e_sb) == len(e_b) == len(e_s) == 5):
            env.fail("band-length", "expected p-value lists must have five entries", key=f"{ts}:band-length")
            return
        for i, n in enumerate((2, 1, 0, -1, -2)):
            if base == "normal":
                x = N(n)
            else:
                x = env.ite(N(n) > -a, N(n), -a)      # never below the value that corresponds to q = 0
                ev = b.expected_value(n)
                env.eq(f"clipped-expected-value[{n}]", ev, x, key=f"{ts}:clipped:expected_value")
                env.holds(f"clipped-nonnegative-q[{n}]", N(ev) + a >= 0, key=f"{ts}:clipped:nonneg")
            ws, wb = _phi(env, -x - a), _phi(env, -x)
            env.eq(f"exp-CLsb[{n}]", e_sb[i], ws, key=f"{ts}:{base}:exp-CLsb")
            env.eq(f"exp-CLb[{n}]", e_b[i], wb, key=f"{ts}:{base}:exp-CLb")
            env.eq(f"exp-CLs[{n}]", e_s[i], ws / wb, key=f"{ts}:{base}:exp-CLs")
            env.holds(f"exp-range[{n}]", (N(e_s[i]) >= 0) & (N(e_s[i]) <= 1) if env.mode == "sym" else 0 <= float(e_s[i]) <= 1, key=f"{ts}:{base}:exp-range")
        # the distributions use the sqrt(q_A) cached by the *last* teststatistic call
        env.eq("sb-shift", sb.shift, -a, key=f"{ts}:shift")
        env.eq("b-shift", b.shift, 0, key=f"{ts}:shift")
        env.eq("cdf", sb.cdf(tstat), _phi(env, N(tstat) + a), key=f"{ts}:cdf")
    return h


def _sequence(env, ts):
    """one calculator used for several tested values in a row: every call uses ITS OWN observed and Asimov statistics"""
    tb = env.install_backend()
    N = env.num
    model = _model(env)
    cfg = model.config
    data = tb.astensor([env.sym(f"d{i}") for i in range(cfg.nmaindata + cfg.nauxdata)])
    stat = _StatStub(env, model)
    # every call of the statistic gets fresh symbols; even-numbered calls are "observed", odd ones "Asimov"
    orig = stat.__call__

    def stat_call(mu, d, pdf, ip, pb, fp, return_fitted_pars=False):
        out = _StatStub.__call__(stat, mu, d, pdf, ip, pb, fp, return_fitted_pars)
        if len(stat.calls) % 2 == 0:
            env.assume(N(stat.calls[-1]["q"]) > 0)
        return out
    calc = CALC.AsymptoticCalculator(data, model, test_stat=ts)
    asim = []

    def fake_asimov(amu, d, pdf, ip, pb, fp, return_fitted_pars=False):
        a = tb.astensor([env.sym(f"A{len(asim)}_{i}") for i in range(cfg.nmaindata + cfg.nauxdata)])
        asim.append(a)
        return (a, tb.astensor([env.sym(f"ap{len(asim)}_{i}") for i in range(cfg.npars)])) if return_fitted_pars else a
    with patched(("pyhf.infer.utils", "get_test_stat", lambda name: stat_call), ("pyhf.infer.calculators", "generate_asimov_data", fake_asimov)):
        for k in range(3):
            mu = env.sym(f"mu{k}")
            tstat = calc.teststatistic(mu)
            if len(stat.calls) != 2 * (k + 1):
                env.fail(f"call{k}:evaluations", f"{len(stat.calls)} statistic evaluations after {k + 1} calls (each call needs its own observed and Asimov statistic)", key=f"{ts}:sequence:stale")
                return
            q, qA = N(stat.calls[2 * k]["q"]), N(stat.calls[2 * k + 1]["q"])
            env.eq(f"call{k}:asimov-mu", stat.calls[2 * k + 1]["mu"], mu, key=f"{ts}:sequence:stale")
            s_, a_ = q.sqrt(), qA.sqrt()
            want = s_ - a_ if ts in ("q", "q0") else env.ite(q <= qA, s_ - a_, (q - qA) / (2 * a_))
            env.eq(f"call{k}:teststat", tstat, want, key=f"{ts}:sequence:teststat")
            sb, b = calc.distributions(mu)
            env.eq(f"call{k}:shift", sb.shift, -a_, key=f"{ts}:sequence:stale")
            CLsb, CLb, CLs = calc.pvalues(tstat, sb, b)
            env.eq(f"call{k}:CLb", CLb, _phi(env, -(want)), key=f"{ts}:sequence:CLb")


def _errors(env):
    tb = env.install_backend()
    model = _model(env)
    cfg = model.config
    data = tb.astensor([env.sym(f"d{i}") for i in range(cfg.nmaindata + cfg.nauxdata)])
    calc = CALC.AsymptoticCalculator(data, model, test_stat="qtilde")
    try:
        calc.distributions(1.0)
        env.fail("distributions-before-teststatistic", "no RuntimeError", key="errors")
    except RuntimeError:
        env.holds("distributions-before-teststatistic", True, key="errors")
    calc2 = CALC.AsymptoticCalculator(data, model, test_stat="qtilde", calc_base_dist="gauss")
    calc2.sqrtqmuA_v = tb.astensor(env.sym("a", positive=True))
    try:
        calc2.distributions(1.0)
        env.fail("unknown-base-distribution", "no ValueError", key="errors")
    except ValueError:
        env.holds("unknown-base-distribution", True, key="errors")

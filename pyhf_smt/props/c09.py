"""C09 - upper limits solve CLs(mu) = level at the requested level."""
from __future__ import annotations

from fractions import Fraction

import numpy as np

import pyhf
from pyhf.infer.intervals import upper_limits as UL

from .. import shapes
from ..stubs import patched
from ..sym import SV

ID = "C09"
BUDGET = {"quick": dict(max_paths=3000, timeout_ms=20000), "thorough": dict(max_paths=20000, timeout_ms=60000)}
TWIN_EVERY = {"quick": 5, "thorough": 3}
VALIDATE_EVERY = {"quick": 100, "thorough": 100}

META = {
    "assumptions": [
        "hypotest is replaced by six CLs curves (observed + five expected) given as arbitrary symbolic values per evaluation point, constrained only to be strictly decreasing in mu, to lie in (0,1) and to be band-ordered pointwise",
        "scipy.optimize.toms748 is replaced by an exact-root contract: the bracket it is handed must have a sign change (asserted: an invalid bracket is a violation), it returns some r inside the bracket with f(r, *args) = 0",
        "np.interp is modelled exactly (piecewise linear on increasing abscissae, clamped outside)",
        "hypothesis of the property: every curve decreases through the level inside the scanned range, strictly at the upper end; bracket extension needs at most one halving / doubling",
        "pyhf's default level is the float 0.05 (exact binary value)",
    ],
    "bounds": {
        "quick": "automatic scan with the bracket valid as given (one halving / one doubling: thorough tier); user grids of 2-4 increasing points; level symbolic in (0.001, 0.5); flags return_results / from_upper_limit_fn; extra hypotest kwargs; deprecated entry point",
        "thorough": "as quick plus one halving / one doubling of the bracket, grids up to 5 points",
    },
    "stubs": ["pyhf.infer.intervals.upper_limits.hypotest", "pyhf.infer.intervals.upper_limits.toms748", "numpy.interp inside upper_limits"],
    "outside_claim": ["root-finder tolerance (contract is an exact root)", "real CLs curves (need the optimisers)"],
}

LEVEL_DEFAULT = Fraction(0.05)


class Curves:
    """hypotest stub: six symbolic values per call, pairwise strictly decreasing w.r.t. earlier calls"""

    def __init__(self, env):
        self.env, self.calls = env, []

    def __call__(self, poi, data, model, return_expected_set=False, **kw):
        env = self.env
        N = env.num
        tb = pyhf.tensorlib
        j = len(self.calls)
        vals = [env.sym(f"cls{k}_at{j}") for k in range(6)]
        for k in range(6):
            env.assume(N(vals[k]) > 0, check=False)
            env.assume(N(vals[k]) < 1, check=False)
        for k in range(1, 5):
            env.assume(N(vals[k]) <= N(vals[k + 1]), check=False)
        for c in self.calls:
            for k in range(6):
                if env.mode == "sym":
                    a, b = N(c["poi"]), N(poi)
                    env.assume(((~(a < b)) | (N(c["vals"][k]) > N(vals[k]))) & ((~(a > b)) | (N(c["vals"][k]) < N(vals[k])))
                               & ((~(a == b)) | (N(c["vals"][k]) == N(vals[k]))), check=False)
                else:
                    a, b = float(c["poi"]), float(poi)
                    ok = (not a < b or c["vals"][k] > vals[k]) and (not a > b or c["vals"][k] < vals[k]) and (not a == b or c["vals"][k] == vals[k])
                    env.assume(ok)
        self.calls.append(dict(poi=poi, data=data, model=model, kw=kw, vals=vals, res=None, return_expected_set=return_expected_set))
        res = (tb.astensor(vals[0]), [tb.astensor(v) for v in vals[1:]])
        self.calls[-1]["res"] = res
        return res


class Root:
    """toms748 stub: exact root inside a valid bracket"""

    def __init__(self, env):
        self.env, self.calls = env, []

    def __call__(self, f, a, b, args=(), k=2, xtol=None, rtol=None, **kw):
        env = self.env
        N = env.num
        j = len(self.calls)
        fa, fb = N(f(a, *args)), N(f(b, *args))
        env.holds(f"bracket-valid[{j}]", ((fa >= 0) & (fb <= 0)) | ((fa <= 0) & (fb >= 0)) if env.mode == "sym"
                  else (float(fa.v) >= 0 >= float(fb.v)) or (float(fa.v) <= 0 <= float(fb.v)), key="bracket-valid")
        r = env.sym(f"root{j}")
        lo = env.ite(N(a) <= N(b), N(a), N(b))
        hi = env.ite(N(a) <= N(b), N(b), N(a))
        env.assume(N(r) >= lo)
        env.assume(N(r) <= hi)
        fr = N(f(r, *args))
        env.assume(fr == 0)
        self.calls.append(dict(a=a, b=b, args=args, r=r, xtol=xtol, rtol=rtol))
        return r


class _NP:
    """numpy with an exact piecewise-linear interp on symbolic values"""

    def __init__(self, env):
        self._env = env

    def __getattr__(self, k):
        return getattr(np, k)

    def interp(self, x, xp, fp):
        """exact np.interp on increasing xp as one piecewise term (no forking)"""
        env = self._env
        N = env.num
        xp, fp = list(xp), list(fp)
        x = N(x)
        r = N(fp[-1])
        for i in range(len(xp) - 2, -1, -1):
            t = (x - N(xp[i])) / (N(xp[i + 1]) - N(xp[i]))
            r = env.ite(x <= N(xp[i + 1]), N(fp[i]) + t * (N(fp[i + 1]) - N(fp[i])), r)
        r = env.ite(x <= N(xp[0]), N(fp[0]), r)
        return env.raw(r)


def items(tier, seed):
    out = []
    out.append(("forward-level", None, None))
    for ext in ("none", "halve", "double"):
        for entry in ("toms748_scan", "upper_limit", "upperlimit"):
            if tier == "quick" and ext != "none":
                continue
            if ext != "none" and entry == "upperlimit":
                continue
            out.append(("auto", ext, entry))
    for n in ((2, 3, 4) if tier == "quick" else (2, 3, 4, 5)):
        for entry in ("linear_grid_scan", "upper_limit"):
            out.append(("grid", n, entry))
    out.append(("forward", None, None))
    # a second automatic scan on the same model object and data tensor after a first one with other hypotest options
    out.append(("auto-seq", "none", "toms748_scan"))
    return out


def item_opts(item, tier):
    # the automatic-scan items explore ~100-700 symbolic paths each; twins run on the cheap items
    if item[0] == "auto":
        return {"twin": tier == "thorough" and item[1] == "none" and item[2] == "toms748_scan", "validate": 0}
    if item[0] == "auto-seq":
        return {"twin": True, "validate": 0}
    return {"twin": True}


def _model(env):
    sh = next(s for s in shapes.family_core() if s["tag"] == "single:normsys")
    return pyhf.Model(shapes.realize(env, sh["spec"]), poi_name="mu")


def _level(env):
    lv = env.sym("level")
    env.assume(env.num(lv) > Fraction(1, 1000))
    env.assume(env.num(lv) < Fraction(1, 2))
    return lv


def harness_for(item):
    kind, a1, entry = item

    def auto(env):
        tb = env.install_backend()
        N = env.num
        model = _model(env)
        data = tb.astensor([env.sym(f"d{i}") for i in range(model.config.nmaindata + model.config.nauxdata)])
        level = _level(env)
        curves, root = Curves(env), Root(env)
        if kind == "auto-seq":
            # first scan: concrete curves cls_k(mu) = a_k / (a_k + mu), level 1/4, exact roots 3 a_k, options test_stat="q"
            lo, hi = 0.5, 16.0
            A = [3, 1, 2, 3, 4, 5]
            first = []

            def conc_curves(poi, d, m, return_expected_set=False, **k):
                first.append(dict(poi=poi, kw=k))
                vals = [N(a) / (N(a) + N(poi)) for a in A]
                return (tb.astensor(env.raw(vals[0])), [tb.astensor(env.raw(v)) for v in vals[1:]])

            def conc_root(f, a, b, args=(), **k):
                r = 3.0 * A[args[1]]
                f(r, *args)
                return r
            with patched((UL, "hypotest", conc_curves), (UL, "toms748", conc_root), (UL, "np", _NP(env))):
                o1, e1 = UL.toms748_scan(data, model, lo, hi, level=0.25, test_stat="q")
            env.eq("first-scan:obs", o1, 9, key="auto-seq:first")
            env.eq_all("first-scan:exp", list(e1), [3, 6, 9, 12, 15], key="auto-seq:first")
        elif entry == "toms748_scan":
            lo, hi = env.sym("lo", positive=True), env.sym("hi", positive=True)
            env.assume(N(lo) < N(hi))
        else:
            b = model.config.suggested_bounds()[model.config.poi_index]
            lo, hi = b[0], b[1]
            lo = 1.0   # the suggested lower bound 0 can never be halved into validity; use a patched bound
            model.config.par_map["mu"]["paramset"].suggested_bounds = [(lo, hi)]
        # pre-state the hypothesis of the property for the points the scan will visit
        used_level = level
        lo_eff = N(lo) / 2 if a1 == "halve" else N(lo)
        hi_eff = N(hi) * 2 if a1 == "double" else N(hi)
        kw = dict(test_stat="qtilde", calctype="asymptotics")
        if entry != "toms748_scan":
            # every hypothesis-test option of the caller reaches every evaluation, bounds and start values included
            kw.update(par_bounds=list(model.config.suggested_bounds()), init_pars=list(model.config.suggested_init()))
        with patched((UL, "hypotest", curves), (UL, "toms748", root), (UL, "np", _NP(env))):
            # the scan's own first evaluations (lo, then lo/2, hi, then 2*hi): constrain them as they appear
            orig_call = curves.__call__

            def constrained(poi, *a, **k):
                res = Curves.__call__(curves, poi, *a, **k)
                vals = curves.calls[-1]["vals"]
                j = len(curves.calls) - 1
                # the scan's own first evaluations are, in order: lo, [lo/2], hi, [2*hi]
                order = ["lo"] + (["lo2"] if a1 == "halve" else []) + ["hi"] + (["hi2"] if a1 == "double" else [])
                role = order[j] if j < len(order) else None
                # hypothesis of the property, for the caller's level (that the level reaches the scan at all is
                # decided separately and cheaply by the forward-level item)
                levels = [N(level)]
                for kk in range(6):
                    v = N(vals[kk])
                    for lv in levels:
                        if (role == "lo" and a1 != "halve") or role == "lo2":
                            env.assume(v > lv)
                        if role == "lo" and a1 == "halve" and kk == 0:
                            env.assume(v < lv)          # forces exactly one halving
                        if (role == "hi" and a1 != "double") or role == "hi2":
                            env.assume(v < lv)
                        if role == "hi" and a1 == "double" and kk == 5:
                            env.assume(v > lv)          # forces exactly one doubling
                return res
            with patched((UL, "hypotest", constrained)):
                if entry == "toms748_scan":
                    atol, rtol = env.sym("atol", positive=True), env.sym("rtol", positive=True)
                    out = UL.toms748_scan(data, model, lo, hi, level=level, atol=atol, rtol=rtol, from_upper_limit_fn=True, **kw)
                elif entry == "upper_limit":
                    out = UL.upper_limit(data, model, level=level, return_results=True, **kw)
                else:
                    import warnings
                    with warnings.catch_warnings():
                        warnings.simplefilter("ignore")
                        out = pyhf.infer.intervals.upperlimit(data, model, None, level, True, **kw)
        obs, exp, (pts, results) = out
        key = f"{kind}:{entry}"
        # "within the root-finder tolerance": the tolerances of the call reach every root search unchanged
        want_atol, want_rtol = (atol, rtol) if entry == "toms748_scan" else (Fraction(2e-12), Fraction(1e-4))
        env.holds("six-root-searches", len(root.calls) == 6, key=f"{key}:roots")
        for j, rc in enumerate(root.calls):
            env.eq(f"root[{j}]:xtol", rc["xtol"], want_atol, key=f"{key}:tolerance")
            env.eq(f"root[{j}]:rtol", rc["rtol"], want_rtol, key=f"{key}:tolerance")
        # the limits are roots of the corresponding curve at the CALLER's level
        def curve_at(mu, k):
            for c in curves.calls:
                same = (N(c["poi"]) == N(mu))
                if (bool(same) if env.mode == "sym" else float(c["poi"]) == float(mu)):
                    return c["vals"][k]
            return None
        if len(exp) != 5:
            env.fail("five-expected", f"{len(exp)} expected limits", key=f"{key}:layout")
            return
        for k, r in enumerate([obs] + list(exp)):
            v = curve_at(r, k)
            if v is None:
                env.fail(f"limit[{k}]:evaluated", "the reported limit is not a point at which the curve was evaluated", key=f"{key}:root")
                continue
            env.eq(f"limit[{k}]:cls=level", v, level, key=f"{key}:level")
        for k in range(4):
            env.holds(f"ordered[{k}]", N(exp[k]) <= N(exp[k + 1]), key=f"{key}:ordered")
        # per-point results are the hypothesis-test results at the reported scan points
        env.holds("results:length", len(pts) == len(results) == len(curves.calls), key=f"{key}:results")
        for j, c in enumerate(curves.calls):
            if j < len(pts):
                env.eq(f"results:point[{j}]", pts[j], c["poi"], key=f"{key}:results")
                env.holds(f"results:object[{j}]", results[j] is c["res"], key=f"{key}:results")
            env.holds(f"kwargs[{j}]", c["kw"] == kw and c["return_expected_set"] is True and c["data"] is data and c["model"] is model, key=f"{key}:kwargs")

    def grid(env):
        tb = env.install_backend()
        N = env.num
        model = _model(env)
        data = tb.astensor([env.sym(f"d{i}") for i in range(model.config.nmaindata + model.config.nauxdata)])
        level = _level(env)
        n = a1
        scan = [env.sym(f"mu{i}", positive=True) for i in range(n)]
        for i in range(n - 1):
            env.assume(N(scan[i]) < N(scan[i + 1]))
        curves = Curves(env)
        kw = dict(test_stat="q")

        def constrained(poi, *a, **k):
            res = Curves.__call__(curves, poi, *a, **k)
            j = len(curves.calls) - 1
            for kk in range(6):
                v = N(curves.calls[-1]["vals"][kk])
                if j == 0:
                    env.assume(v > N(level))
                if j == n - 1:
                    env.assume(v < N(level))
            return res
        scan_t = tb.astensor(scan)
        with patched((UL, "hypotest", constrained), (UL, "np", _NP(env))):
            if entry == "linear_grid_scan":
                out = UL.linear_grid_scan(data, model, scan_t, level=level, return_results=True, **kw)
            else:
                out = UL.upper_limit(data, model, scan_t, level, True, **kw)
        obs, exp, (sc, results) = out
        key = f"grid:{entry}"
        env.holds("n-evaluations", len(curves.calls) == n, key=f"{key}:results")
        if len(curves.calls) != n or len(exp) != 5:
            return
        for k, r in enumerate([obs] + list(exp)):
            # the limit lies in the cell where curve k crosses the level and is the linear interpolant there
            r = N(r)
            ok = env.num(0) > 1 if env.mode != "sym" else None
            terms = []
            for i in range(n - 1):
                ci, cj = N(curves.calls[i]["vals"][k]), N(curves.calls[i + 1]["vals"][k])
                mi, mj = N(scan[i]), N(scan[i + 1])
                incell = (ci >= N(level)) & (N(level) >= cj) if env.mode == "sym" else (ci >= N(level)) and (N(level) >= cj)
                interp = mi + (N(level) - ci) / (cj - ci) * (mj - mi)
                terms.append((incell, mi, mj, interp))
            if env.mode == "sym":
                goal = None
                from ..sym import SB
                acc = SB(False)
                for incell, mi, mj, interp in terms:
                    acc = acc | (incell & (r >= mi) & (r <= mj) & (r == interp))
                env.holds(f"limit[{k}]:in-crossing-cell", acc, key=f"{key}:cell")
            else:
                hit = any(incell and float(mi.v) - 1e-12 <= float(r.v) <= float(mj.v) + 1e-12 and abs(float(r.v) - float(interp.v)) <= 1e-9 * max(1, abs(float(r.v)))
                          for incell, mi, mj, interp in terms)
                env.holds(f"limit[{k}]:in-crossing-cell", hit, key=f"{key}:cell")
        for k in range(4):
            env.holds(f"ordered[{k}]", N(exp[k]) <= N(exp[k + 1]), key=f"{key}:ordered")
        env.holds("results:scan", sc is scan_t, key=f"{key}:results")
        for j, c in enumerate(curves.calls):
            env.eq(f"results:point[{j}]", c["poi"], scan[j], key=f"{key}:results")
            env.holds(f"results:object[{j}]", results[j] is c["res"], key=f"{key}:results")
            env.holds(f"kwargs[{j}]", c["kw"] == kw and c["return_expected_set"] is True, key=f"{key}:kwargs")

    def forward(env):
        """the deprecated entry point forwards all five arguments and the keyword arguments"""
        env.install_backend()
        rec = []

        def fake(data, model, scan=None, level=0.05, return_results=False, **kw):
            rec.append((data, model, scan, level, return_results, kw))
            return "sentinel"
        lv = _level(env)
        import warnings
        with patched((UL, "upper_limit", fake)), warnings.catch_warnings():
            warnings.simplefilter("ignore")
            out = pyhf.infer.intervals.upperlimit("D", "M", "S", lv, True, test_stat="q", calctype="toybased")
        env.holds("forward:result", out == "sentinel" and len(rec) == 1, key="forward")
        if rec:
            d, m, s, l, rr, kw = rec[0]
            env.holds("forward:args", d == "D" and m == "M" and s == "S" and rr is True and kw == dict(test_stat="q", calctype="toybased"), key="forward")
            env.eq("forward:level", l, lv, key="forward")

    def forward_level(env):
        """whichever scan mode is chosen, the threshold used is the one the caller passed"""
        tb = env.install_backend()
        model = _model(env)
        data = tb.astensor([env.sym(f"d{i}") for i in range(model.config.nmaindata + model.config.nauxdata)])
        lv = _level(env)
        rec = {}

        def fake_toms(data_, model_, lo, hi, level=0.05, atol=2e-12, rtol=1e-4, from_upper_limit_fn=False, **kw):
            rec["auto"] = dict(level=level, kw=kw, lo=lo, hi=hi, data=data_, model=model_, flag=from_upper_limit_fn)
            return "obs", "exp", ("pts", "res")

        def fake_grid(data_, model_, scan, level=0.05, return_results=False, **kw):
            rec["grid"] = dict(level=level, kw=kw, scan=scan, rr=return_results)
            return ("obs", "exp", ("scan", "res")) if return_results else ("obs", "exp")
        with patched((UL, "toms748_scan", fake_toms), (UL, "linear_grid_scan", fake_grid)):
            o1 = UL.upper_limit(data, model, level=lv, return_results=True, test_stat="q")
            o2 = UL.upper_limit(data, model, scan="S", level=lv, return_results=False, test_stat="q")
        env.holds("auto:called", "auto" in rec and o1 == ("obs", "exp", ("pts", "res")), key="level:auto-dispatch")
        env.holds("grid:called", "grid" in rec and o2 == ("obs", "exp"), key="level:grid-dispatch")
        if "auto" in rec:
            env.eq("auto:level-forwarded", rec["auto"]["level"], lv, key="level:auto-scan-ignores-level")
            b = model.config.suggested_bounds()[model.config.poi_index]
            env.eq("auto:bracket-lo", rec["auto"]["lo"], b[0], key="level:auto-bracket")
            env.eq("auto:bracket-hi", rec["auto"]["hi"], b[1], key="level:auto-bracket")
            env.holds("auto:kwargs", rec["auto"]["kw"] == dict(test_stat="q") and rec["auto"]["data"] is data and rec["auto"]["model"] is model, key="level:auto-kwargs")
        if "grid" in rec:
            env.eq("grid:level-forwarded", rec["grid"]["level"], lv, key="level:grid")
            env.holds("grid:kwargs", rec["grid"]["kw"] == dict(test_stat="q") and rec["grid"]["scan"] == "S" and rec["grid"]["rr"] is False, key="level:grid")

    return {"auto": auto, "auto-seq": auto, "grid": grid, "forward": forward, "forward-level": forward_level}[kind]

"""helpers shared by the model-level harnesses (C01, C02, C10, C12, C15, C20)"""
from __future__ import annotations

import itertools

import numpy as np

import pyhf

from .. import oracle, shapes

HCODES = ["code4p", "code0", "code2"]
NCODES = ["code4", "code1"]
INTERP_IDS = {"code0": 0, "code1": 1, "code2": 2, "code4": 4, "code4p": "4p"}


def settings_for(index, tier, full=False):
    """deterministic covering choice of (hcode, ncode, clip, batch) settings for shape #index"""
    allc = list(itertools.product(HCODES, NCODES))
    if full:
        out = []
        for (h, n) in allc:
            for clip in (False, True):
                for batch in (None, 1, 2):
                    out.append((h, n, clip, batch))
        return out
    out = [("code4p", "code4", False, None)]
    h, n = allc[index % len(allc)]
    out.append((h, n, index % 2 == 0, (None, 2, 1)[index % 3]))
    if tier == "thorough":
        h, n = allc[(index + 3) % len(allc)]
        out.append((h, n, index % 2 == 1, (2, None, 3)[index % 3]))
    return out


def isolated_interp(env, tb):
    """the real interpolator of the configured code, called on one (alpha, lo, nom, hi) alone"""
    def f(code, a, lo, nom, hi):
        it = pyhf.interpolators.get(INTERP_IDS[code])([[[[lo], [nom], [hi]]]], subscribe=False)
        return env.num(it(tb.astensor([[a]]))[0, 0, 0, 0])
    return f


def build_model(env, shape, hcode="code4p", ncode="code4", clip=False, batch=None, prefix="", **kw):
    tb = env.backend
    spec = shapes.realize(env, shape["spec"], prefix=prefix)
    cs = env.sym(prefix + "clip_s", nonneg=True) if clip else None
    cb = env.sym(prefix + "clip_b", nonneg=True) if clip else None
    model = pyhf.Model(spec, poi_name=shape.get("poi"), batch_size=batch,
                       modifier_settings={"normsys": {"interpcode": ncode}, "histosys": {"interpcode": hcode}},
                       clip_sample_data=cs, clip_bin_data=cb, **kw)
    return spec, model, cs, cb


def par_symbols(env, model, batch=None, prefix="p"):
    n = model.config.npars
    if batch:
        return [[env.sym(f"{prefix}{r}_{i}") for i in range(n)] for r in range(batch)]
    return [env.sym(f"{prefix}{i}") for i in range(n)]


def par_lookup(model, row):
    cfg = model.config
    return lambda name, i=0: row[cfg.par_slice(name).start + i]


def has_absent_sample(spec):
    names = {s["name"] for c in spec["channels"] for s in c["samples"]}
    return any({s["name"] for s in c["samples"]} != names for c in spec["channels"])


def user_cfg(spec):
    return {p["name"]: p for p in spec.get("parameters", [])}

"""C17 - patch sets look up, verify and apply patches exactly (digest 'iff' and RFC-6902 semantics outside)."""
from __future__ import annotations

import copy
import itertools

import pyhf
from pyhf import patchset as PS

from .. import names
from ..stubs import patched

ID = "C17"
BUDGET = {"quick": dict(max_paths=4000, timeout_ms=20000), "thorough": dict(max_paths=100000, timeout_ms=60000)}
TWIN_EVERY = {"quick": 1, "thorough": 1}
VALIDATE_EVERY = {"quick": 1000, "thorough": 1000}

META = {
    "assumptions": [
        "patch names are symbolic in the equality/identity sense: each symbolic name is resolved, by forking, to one of the string literals the code under test can mention (pool rebuilt from the AST of pyhf.patchset on every run), to an earlier symbolic name, or to a fresh name; every equality pattern is an explored path",
        "value tuples are solver reals; whether a tuple coincides with an earlier one is a forked choice (shared objects) and otherwise assumed different in some coordinate",
        "schema validation (patchset.json) runs for real; utils.digest is an opaque function (stubbed by a table) - only the logic around it is claimed",
    ],
    "bounds": {
        "quick": "<=3 patches, 2 names symbolic at a time, 1-2 labels; lookup keys: every name/tuple/list of the set, plus one symbolic key over pool + names + fresh; verify with 1-2 digest algorithms x equal/unequal; apply on a concrete workspace",
        "thorough": "3 names symbolic at a time",
    },
    "stubs": ["pyhf.utils.digest (table lookup) in the verify-logic item"],
    "also_enumerated": "digest sensitivity: every single-leaf corruption / key rename of one workspace with ASCII and non-ASCII content changes both digests, key order does not (an enumeration with the real hash functions, reported as such; not a solver verdict)",
    "outside_claim": ["collision resistance of SHA-2/MD5 (cryptographic assumption); digest sensitivity beyond the enumerated single-leaf corruptions", "RFC-6902 semantics of the jsonpatch package", "names outside [a-zA-Z0-9_]+ (rejected by the schema)"],
}

SHA = "a" * 64
MD5 = "b" * 32


def _doc(pnames, values, labels):
    return {
        "metadata": {"name": "ps", "description": "d", "version": "1.0.0", "digests": {"sha256": SHA},
                     "labels": list(labels), "references": {"hepdata": "ins1234567"}},
        # the last patch is a no-op (empty operation list): schema-valid, e.g. the nominal point of a grid
        "patches": [{"metadata": {"name": n, "values": list(v)},
                     "patch": [] if (i == len(pnames) - 1 and len(pnames) > 1) else [{"op": "add", "path": f"/foo{i}", "value": i}]}
                    for i, (n, v) in enumerate(zip(pnames, values))],
        "version": "1.0.0",
    }


def items(tier, seed):
    out = []
    for n in (1, 2, 3):
        for nl in (1, 2):
            out.append(("accept", n, nl))
    out.append(("lookup", 2, 1))
    out.append(("lookup", 3, 2))
    out.append(("values", 2, 2))
    out.append(("values", 3, 1))
    out.append(("wrong-length", 2, 2))
    out.append(("verify", 1, 1))
    out.append(("digest-leaves", 1, 1))
    out.append(("apply", 2, 1))
    return out


def _pool():
    return names.literal_pool(["pyhf.patchset"])


def _tuples(env, n, nl, prefix="v"):
    """n value tuples with forked coincidence pattern; returns (tuples, same_as) with same_as[j] = i<j or None"""
    N = env.num
    tuples, same = [], []
    for j in range(n):
        c = env.choice(f"{prefix}{j}", j + 1)
        if c < j:
            tuples.append(tuples[c])
            same.append(c if same[c] is None else same[c])
            continue
        t = tuple(env.sym(f"{prefix}{j}_{k}") for k in range(nl))
        for i, u in enumerate(tuples):
            if same[i] is None:
                if env.mode == "sym":
                    from ..sym import SB
                    d = SB(False)
                    for a, b in zip(t, u):
                        d = d | (N(a) != N(b))
                    env.assume(d, check=False)
                else:
                    env.assume(any(a != b for a, b in zip(t, u)))
        tuples.append(t)
        same.append(None)
    return tuples, same


def harness_for(item):
    kind, n, nl = item

    def accept(env):
        env.install_backend()
        pool = _pool()
        labels = [f"l{k}" for k in range(nl)]
        nsym = min(n, 2 if env.tier == "quick" else 3)
        pn = []
        for j in range(n):
            if j < nsym:
                pn.append(names.symname(env, f"n{j}", pool, earlier=pn))
            else:
                pn.append(f"concrete{j}")
        vals = [tuple(float(10 * j + k) for k in range(nl)) for j in range(n)]
        doc = _doc(pn, vals, labels)
        before = copy.deepcopy(doc)
        distinct = len(set(pn)) == n
        tag = "|".join("fresh" if isinstance(x, names.FreshName) else x for x in pn)
        try:
            ps = PS.PatchSet(doc)
        except pyhf.exceptions.InvalidPatchSet as e:
            if distinct:
                env.fail(f"rejected[{tag}]", f"pairwise distinct names were rejected: {str(e)[:100]}", key="accept:distinct-names-rejected:" + _reserved(pn, pool))
            else:
                env.holds(f"duplicate-rejected[{tag}]", True, key="accept:duplicates")
            return
        except Exception as e:  # noqa: BLE001
            env.fail(f"raised[{tag}]", f"{type(e).__name__}: {str(e)[:100]}", key="accept:foreign-exception")
            return
        if not distinct:
            env.fail(f"duplicate-accepted[{tag}]", "two patches with one name were accepted", key="accept:duplicates")
            return
        env.holds(f"accepted[{tag}]", True, key="accept:distinct-names")
        env.holds(f"len[{tag}]", len(ps) == n and [p.name for p in ps] == pn, key="accept:order")
        for j in range(n):
            _lookup(env, ps, pn[j], ps.patches[j], f"by-name[{tag},{j}]", "lookup:by-name:" + _reserved([pn[j]], pool))
            _lookup(env, ps, vals[j], ps.patches[j], f"by-tuple[{tag},{j}]", "lookup:by-values")
            _lookup(env, ps, list(vals[j]), ps.patches[j], f"by-list[{tag},{j}]", "lookup:by-values")
        env.holds(f"no-mutation[{tag}]", doc == before, key="no-mutation")

    def lookup(env):
        env.install_backend()
        pool = _pool()
        labels = [f"l{k}" for k in range(nl)]
        pn = [f"patch{j}" for j in range(n)]
        vals = [tuple(float(10 * j + k) for k in range(nl)) for j in range(n)]
        ps = PS.PatchSet(_doc(pn, vals, labels))
        key = names.symname(env, "key", pool, earlier=pn)
        tag = "fresh" if isinstance(key, names.FreshName) else key
        if key in pn:
            _lookup(env, ps, key, ps.patches[pn.index(key)], f"key[{tag}]", "lookup:by-name")
        else:
            _lookup(env, ps, key, None, f"key[{tag}]", "lookup:unknown-key:" + _reserved([key], pool))
        # tuples that are not in the set, of right and wrong length
        for bad in (tuple(-1.0 for _ in range(nl)), (), tuple(0.0 for _ in range(nl + 1)), [5.0], 7, None):
            _lookup(env, ps, bad, None, f"unknown{bad!r}", "lookup:unknown-key")

    def values(env):
        env.install_backend()
        N = env.num
        labels = [f"l{k}" for k in range(nl)]
        pn = [f"patch{j}" for j in range(n)]
        tuples, same = _tuples(env, n, nl)
        doc = _doc(pn, tuples, labels)
        distinct = all(s is None for s in same)
        tag = "".join("n" if s is None else str(s) for s in same)
        try:
            ps = PS.PatchSet(doc)
        except pyhf.exceptions.InvalidPatchSet:
            env.holds(f"values[{tag}]:rejected", not distinct, key="accept:duplicate-values")
            return
        env.holds(f"values[{tag}]:accepted", distinct, key="accept:duplicate-values")
        if distinct:
            for j in range(n):
                _lookup(env, ps, tuples[j], ps.patches[j], f"by-tuple[{tag},{j}]", "lookup:by-values")
                _lookup(env, ps, list(tuples[j]), ps.patches[j], f"by-list[{tag},{j}]", "lookup:by-values")
            other = tuple(env.sym(f"other{k}") for k in range(nl))
            for t in tuples:
                if env.mode == "sym":
                    from ..sym import SB
                    d = SB(False)
                    for a, b in zip(other, t):
                        d = d | (N(a) != N(b))
                    env.assume(d, check=False)
                else:
                    env.assume(any(a != b for a, b in zip(other, t)))
            _lookup(env, ps, other, None, f"other-tuple[{tag}]", "lookup:unknown-key")

    def wrong_length(env):
        env.install_backend()
        labels = [f"l{k}" for k in range(nl)]
        for extra in (-1, +1):
            vals = [tuple(float(j) for _ in range(nl)) for j in range(n)]
            vals[-1] = tuple(float(9) for _ in range(nl + extra))
            try:
                PS.PatchSet(_doc([f"p{j}" for j in range(n)], vals, labels))
                env.fail(f"wrong-length[{extra:+d}]", "accepted", key="accept:wrong-number-of-values")
            except pyhf.exceptions.InvalidPatchSet:
                env.holds(f"wrong-length[{extra:+d}]", True, key="accept:wrong-number-of-values")

    def verify(env):
        env.install_backend()
        for algs in (("sha256",), ("md5",), ("sha256", "md5")):
            for pattern in itertools.product((True, False), repeat=len(algs)):
                doc = _doc(["p0"], [(1.0,)], ["l0"])
                doc["metadata"]["digests"] = {a: (SHA if a == "sha256" else MD5) for a in algs}
                ps = PS.PatchSet(doc)
                table = {a: ((SHA if a == "sha256" else MD5) if ok else ("c" * (64 if a == "sha256" else 32))) for a, ok in zip(algs, pattern)}
                calls = []

                def fake(obj, algorithm="sha256"):
                    calls.append(algorithm)
                    return table[algorithm]
                label = f"verify[{','.join(algs)}:{''.join('=' if p else 'x' for p in pattern)}]"
                with patched(("pyhf.utils", "digest", fake)):
                    try:
                        ps.verify({"any": "spec"})
                        env.holds(label, all(pattern) and sorted(calls) == sorted(algs), key="verify:iff")
                    except pyhf.exceptions.PatchSetVerificationError:
                        env.holds(label, not all(pattern), key="verify:iff")

    def apply(env):
        env.install_backend()
        ws = {"channels": [{"name": "c", "samples": [{"name": "s", "data": [1.0], "modifiers": [{"name": "mu", "type": "normfactor", "data": None}]}]}],
              "observations": [{"name": "c", "data": [2.0]}], "measurements": [{"name": "m", "config": {"poi": "mu", "parameters": []}}], "version": "1.0.0"}
        doc = _doc(["p0", "p1", "nominal"], [(1.0,), (2.0,), (0.0,)], ["l0"])
        doc["patches"][0]["patch"] = [{"op": "replace", "path": "/channels/0/samples/0/data", "value": [5.0]}]
        doc["patches"][1]["patch"] = [{"op": "replace", "path": "/observations/0/data", "value": [7.0]}]
        doc["patches"][2]["patch"] = []
        doc["metadata"]["digests"] = {"sha256": pyhf.utils.digest(ws)}
        ps = PS.PatchSet(doc)
        before = copy.deepcopy(ws)
        import jsonpatch
        for key, idx in (("p0", 0), ((2.0,), 1), ([1.0], 0), ("nominal", 2), ((0.0,), 2)):
            out = ps.apply(ws, key)
            want = jsonpatch.JsonPatch(doc["patches"][idx]["patch"]).apply(before)
            env.holds(f"apply[{key!r}]", isinstance(out, pyhf.Workspace) and dict(out) == want, key="apply:result")
            env.holds(f"apply[{key!r}]:no-mutation", ws == before, key="apply:no-mutation")
        corrupted = copy.deepcopy(ws)
        corrupted["observations"][0]["data"] = [2.5]
        try:
            ps.apply(corrupted, "p0")
            env.fail("apply:unverified", "a workspace with a different digest was patched", key="apply:verify-first")
        except pyhf.exceptions.PatchSetVerificationError:
            env.holds("apply:unverified", True, key="apply:verify-first")

    def digest_leaves(env):
        """ENUMERATION (not solver-decided; the hash functions themselves are trusted): on a workspace with ASCII and
        non-ASCII strings, ints, floats, booleans and nulls, every single-leaf corruption and every key rename changes
        the digest under both algorithms, every permutation of key order leaves it unchanged, and verify() follows"""
        env.install_backend()
        ws = {"channels": [{"name": "SR_\u03bc\u03bd", "samples": [{"name": "tt\u0304 \u2192 \u03bc\u03bd", "data": [1.5, 2.0, 3], "modifiers": [
            {"name": "mu", "type": "normfactor", "data": None}, {"name": "syst\u00e9matique", "type": "normsys", "data": {"lo": 0.9, "hi": 1.1}}]}]}],
            "observations": [{"name": "SR_\u03bc\u03bd", "data": [4.0, 5.0, 6.0]}],
            "measurements": [{"name": "m", "config": {"poi": "mu", "parameters": [{"name": "mu", "fixed": False, "inits": [1.0]}]}}], "version": "1.0.0"}
        base = {a: pyhf.utils.digest(ws, algorithm=a) for a in ("sha256", "md5")}

        def leaves(x, path=()):
            if isinstance(x, dict):
                for k in x:
                    yield from leaves(x[k], path + (k,))
            elif isinstance(x, list):
                for i, v in enumerate(x):
                    yield from leaves(v, path + (i,))
            else:
                yield path, x

        def setp(doc, path, val):
            d = doc
            for k in path[:-1]:
                d = d[k]
            d[path[-1]] = val
        n = 0
        for path, v in list(leaves(ws)):
            alts = []
            if isinstance(v, str):
                alts = [v + "x", v[:-1], v.replace("\u03bc", "\u03c4") if "\u03bc" in v else v + "\u03bc", v.replace("\u0304", "") if "\u0304" in v else v.upper() + "_", v + "\u00e9"]
            elif isinstance(v, bool):
                alts = [not v]
            elif isinstance(v, (int, float)):
                alts = [v + 1, v + 1e-9, -v if v else 7]
            elif v is None:
                alts = [0, ""]
            for alt in alts:
                if alt == v and type(alt) is type(v):
                    continue
                c = copy.deepcopy(ws)
                setp(c, path, alt)
                for a in ("sha256", "md5"):
                    n += 1
                    env.holds(f"corrupt{path}->{alt!r}:{a}", pyhf.utils.digest(c, algorithm=a) != base[a], key="digest:leaf-sensitivity")
        # key order does not matter
        def reorder(x):
            if isinstance(x, dict):
                return {k: reorder(x[k]) for k in reversed(list(x))}
            if isinstance(x, list):
                return [reorder(v) for v in x]
            return x
        for a in ("sha256", "md5"):
            env.holds(f"key-order:{a}", pyhf.utils.digest(reorder(ws), algorithm=a) == base[a], key="digest:key-order")
        # verify() follows the digest
        doc = _doc(["p0"], [(1.0,)], ["l0"])
        doc["metadata"]["digests"] = dict(base)
        ps = PS.PatchSet(doc)
        ps.verify(ws)
        bad = copy.deepcopy(ws)
        bad["channels"][0]["samples"][0]["name"] = bad["channels"][0]["samples"][0]["name"].replace("\u03bc", "\u03c4")
        try:
            ps.verify(bad)
            env.fail("verify:non-ascii-corruption", "a workspace differing in a non-ASCII character verified", key="digest:leaf-sensitivity")
        except pyhf.exceptions.PatchSetVerificationError:
            env.holds("verify:non-ascii-corruption", True, key="digest:leaf-sensitivity")
        # verification has no memory: the SAME workspace object, corrupted in place after a successful verify / apply,
        # is refused by verify and by apply; restored, it verifies again
        live = copy.deepcopy(ws)
        ps.verify(live)
        old_val = live["observations"][0]["data"][1]
        live["observations"][0]["data"][1] = old_val + 1
        for nm, call in (("verify", lambda: ps.verify(live)), ("apply", lambda: ps.apply(live, "p0"))):
            try:
                call()
                env.fail(f"{nm}:after-in-place-corruption", "a workspace object that verified earlier and was then corrupted in place is accepted", key="verify:stateless")
            except pyhf.exceptions.PatchSetVerificationError:
                env.holds(f"{nm}:after-in-place-corruption", True, key="verify:stateless")
        live["observations"][0]["data"][1] = old_val
        try:
            ps.verify(live)
            env.holds("verify:restored", True, key="verify:stateless")
        except pyhf.exceptions.PatchSetVerificationError:
            env.fail("verify:restored", "the restored workspace no longer verifies", key="verify:stateless")

    return {"accept": accept, "lookup": lookup, "values": values, "wrong-length": wrong_length, "verify": verify, "apply": apply,
            "digest-leaves": digest_leaves}[kind]


def _reserved(ns, pool):
    hit = sorted(x for x in ns if not isinstance(x, names.FreshName) and x in pool)
    return "reserved=" + ",".join(hit) if hit else "plain"


def _lookup(env, ps, key, want, label, k):
    try:
        got = ps[key]
    except pyhf.exceptions.InvalidPatchLookup:
        if want is None:
            env.holds(label, True, key=k)
        else:
            env.fail(label, f"lookup of an existing key {key!r} raised InvalidPatchLookup", key=k)
        return
    except Exception as e:  # noqa: BLE001
        env.fail(label, f"lookup of {key!r} raised {type(e).__name__} instead of the lookup error", key=k)
        return
    if want is None:
        env.fail(label, f"lookup of the unknown key {key!r} returned {type(got).__name__} {str(got)[:40]} instead of raising the lookup error", key=k)
    else:
        env.holds(label, got is want, key=k)

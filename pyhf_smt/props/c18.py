"""C18 - export to HistFactory XML+ROOT and re-import preserves the statistical model (conversion logic)."""
from __future__ import annotations

import copy
import io
import os
import tempfile
from pathlib import Path

import numpy as np

import pyhf
import pyhf.readxml as R
import pyhf.writexml as W

from .. import decide, shapes, xmlshim
from ..shapes import channel, histosys, lumi, normfactor, normsys, sample, shapefactor, shapesys, staterror
from ..sym import SV, zexpr
from . import common
from .c16 import _match_terms, _terms

ID = "C18"
BUDGET = {"quick": dict(max_paths=64, timeout_ms=30000), "thorough": dict(max_paths=256, timeout_ms=120000)}
TWIN_EVERY = {"quick": 2, "thorough": 3}
VALIDATE_EVERY = {"quick": 1000, "thorough": 1000}

META = {
    "assumptions": [
        "uproot is replaced by an exact in-memory key -> (values, edges) store (duplicate-key detection as in the real object; an opened handle keeps seeing the content it was opened on); number <-> text is an exact round trip (Python guarantees float(str(x)) == x for floats), symbolic numbers travel as opaque tokens inside otherwise real ElementTree XML; writexml's np.divide(where=b != 0) / zeros_like / array are modelled element-wise",
        "concrete replays use the real uproot and real files",
        "yields, uncertainties, normsys factors, lumi central value and sigma > 0; histosys data, normfactor init/bounds free reals; one workspace has a sample yield of free sign (non-zero: a zero yield with non-zero MC uncertainty is not expressible in the format's relative errors)",
    ],
    "bounds": {
        "quick": "8 exportable workspaces (incl. parameter names containing the alpha_/gamma_ prefixes and a signed yield; 1-2 channels, 1-3 samples, 1-3 bins; histosys, normsys, normfactor with custom init/bounds, shapesys, staterror, shapefactor, lumi with central value != 1; fixed parameters; 1-2 measurements); export -> import, export -> import -> export -> import, two directories",
        "thorough": "the 7 workspaces of the quick tier plus 100 seeded workspaces drawn from the spec-shape grammar (up to 3 channels x 3 samples x 4 bins x 5 modifiers per sample; MC-stat modifiers carry the per-channel name the XML format implies)",
    },
    "stubs": ["pyhf.writexml.uproot / pyhf.readxml.uproot -> RootStore", "pyhf.writexml.str / pyhf.readxml.float -> exact token round trip", "pyhf.writexml.np -> element-wise stand-in"],
    "outside_claim": ["unconstrained (normfactor) parameters whose own name starts with 'alpha_' or 'gamma_': the ROOT naming convention cannot tell them from constrained ones (format-dictated)", "uproot/ROOT serialisation (float width, TH1 conventions)", "XML text encoding, the DTD", "cli json2xml/xml2json wrappers"],
}


def _workspaces(tier="quick", seed=0):
    Wk = []
    lcfg = {"name": "lumi", "auxdata": ["$la"], "sigmas": ["$ls"], "bounds": [["$x", "$x"]], "inits": ["$la2"]}
    Wk.append(("basic", [channel("SR", sample("sig", 2, normfactor()), sample("bkg", 2, normsys("xs"), histosys("jes", 2)))], [], "mu"))
    Wk.append(("binwise", [channel("SR", sample("sig", 2, normfactor()), sample("bkg", 2, shapesys("ubkg", 2), staterror("staterror_SR", 2)),
                                   sample("qcd", 2, staterror("staterror_SR", 2), shapefactor("sf")))], [], "mu"))
    Wk.append(("lumi", [channel("A", sample("s", 1, normfactor(), lumi()), sample("b", 1, lumi(), normsys("k")))], [lcfg], "mu"))
    Wk.append(("settings", [channel("A", sample("s", 2, normfactor(), normsys("k")), sample("b", 2, normfactor("nb"), histosys("h", 2))),
                            channel("B", sample("b", 3, normfactor("nb"), shapesys("ub", 3)))],
               [{"name": "mu", "inits": ["$x"], "bounds": [["$x", "$x"]]}, {"name": "nb", "inits": ["$x"], "bounds": [["$x", "$x"]], "fixed": True},
                {"name": "k", "fixed": True}], "mu"))
    Wk.append(("lumi-fixed", [channel("B", sample("s", 2, normfactor(), lumi()), sample("b", 2, lumi(), staterror("staterror_B", 2))),
                              channel("A", sample("b", 1, lumi(), histosys("h", 1)))],
               [dict(lcfg, fixed=True)], "mu"))
    # luminosity start value different from its central value: the format has one Lumi attribute, which must carry the
    # central value (auxdata); the start value is not representable and comes back as the central value
    Wk.append(("lumi-init", [channel("A", sample("s", 2, normfactor(), lumi()), sample("b", 2, lumi(), normsys("k")))], [lcfg], "mu"))
    # parameter names that contain the prefixes the XML format adds to constant parameters
    Wk.append(("prefix-names", [channel("SR", sample("sig", 2, normfactor(), normsys("alpha_s")),
                                          sample("bkg", 2, histosys("jet_alpha_x", 2), normsys("gamma_like"), normfactor("nf_alpha_")))],
               [{"name": "alpha_s", "fixed": True}, {"name": "jet_alpha_x", "fixed": True}, {"name": "gamma_like", "fixed": True},
                {"name": "nf_alpha_", "fixed": True, "inits": ["$x"], "bounds": [["$x", "$x"]]}], "mu"))
    # a sample whose yield may be negative or zero in one bin (interference / negative-weight templates)
    neg = sample("interf", 2, staterror("staterror_SR", 2))
    neg["data"] = ["$x", "$n"]
    Wk.append(("signed-yield", [channel("SR", sample("sig", 2, normfactor()), sample("bkg", 2, staterror("staterror_SR", 2), shapesys("ubkg", 2)), neg)], [], "mu"))
    if tier != "quick":
        # thorough: 100 seeded shapes of the spec-shape grammar, MC-stat modifiers renamed to the per-channel name the XML format implies
        import copy
        for sh in shapes.family_plus(seed, 100):
            chans = copy.deepcopy(sh["spec"]["channels"])
            for c in chans:
                for smp in c["samples"]:
                    for m in smp["modifiers"]:
                        if m["type"] == "staterror":
                            m["name"] = f"staterror_{c['name']}"
            pars = [dict(lcfg)] if sh["spec"].get("parameters") else []
            Wk.append((sh["tag"], chans, pars, "mu"))
    return Wk


def items(tier, seed):
    out = []
    for i, w in enumerate(_workspaces(tier, seed)):
        out.append(("roundtrip", i, w[0]))
    out.append(("cycles", 0, "basic"))
    out.append(("cycles", 2, "lumi"))
    out.append(("dirs", 1, "binwise"))
    out.append(("measurement", None, None))
    return out


def _build(env, idx, prefix=""):
    tag, chans, pars, poi = _workspaces(env.tier, env.seed)[idx]
    spec = shapes.realize(env, {"channels": chans, "parameters": pars}, prefix=prefix)
    if tag == "signed-yield":
        # negative yields are expressible; a zero yield with a non-zero MC uncertainty is not (the format stores
        # the uncertainty relative to the yield), so the free-sign yield is assumed non-zero
        for c in spec["channels"]:
            for smp in c["samples"]:
                if smp["name"] == "interf":
                    env.assume(env.num(smp["data"][0]) != 0)
    for p in spec.get("parameters", []):
        if p["name"] == "lumi" and tag != "lumi-init":
            p["inits"] = [p["auxdata"][0]]      # HistFactory XML has one Lumi attribute for both
    obs = [{"name": c["name"], "data": [env.sym(f"{prefix}o_{c['name']}_{b}", nonneg=True) for b in range(len(c["samples"][0]["data"]))]} for c in spec["channels"]]
    return {"channels": spec["channels"], "observations": obs, "version": "1.0.0",
            "measurements": [{"name": "meas", "config": {"poi": poi, "parameters": spec.get("parameters", [])}}]}


def _export_import(env, ws, d, prefix="res"):
    specdir = Path(d) / "config"
    datadir = Path(d) / "data"
    specdir.mkdir(parents=True, exist_ok=True)
    datadir.mkdir(parents=True, exist_ok=True)
    top = W.writexml(ws, str(specdir), str(datadir), prefix)
    topfile = Path(d) / "top.xml"
    topfile.write_bytes(top)
    return R.parse(str(topfile), str(Path(d)))


def _compare(env, label, w0, w1, key, models=True):
    """w1 (re-imported) against w0 (original): structure, then likelihood under the staterror name map"""
    N = env.num
    c0 = {c["name"]: c for c in w0["channels"]}
    c1 = {c["name"]: c for c in w1["channels"]}
    env.holds(f"{label}:channels", sorted(c0) == sorted(c1), key=key + ":structure")
    if sorted(c0) != sorted(c1):
        return
    for cn in c0:
        s0 = {s["name"]: s for s in c0[cn]["samples"]}
        s1 = {s["name"]: s for s in c1[cn]["samples"]}
        env.holds(f"{label}:samples[{cn}]", sorted(s0) == sorted(s1), key=key + ":structure")
        if sorted(s0) != sorted(s1):
            return
        for sn in s0:
            env.eq_all(f"{label}:nominal[{cn},{sn}]", [N(x) for x in s1[sn]["data"]], [N(x) for x in s0[sn]["data"]], key=key + ":nominal")
            m0 = sorted((m["type"], m["name"]) for m in s0[sn]["modifiers"])
            m1 = sorted((m["type"], m["name"]) for m in s1[sn]["modifiers"])
            env.holds(f"{label}:modifiers[{cn},{sn}]", m0 == m1, key=key + ":structure")
            if m0 != m1:
                continue
            d1 = {(m["type"], m["name"]): m for m in s1[sn]["modifiers"]}
            for m in s0[sn]["modifiers"]:
                mm = d1[(m["type"], m["name"])]
                t = m["type"]
                if t == "histosys":
                    env.eq_all(f"{label}:histosys-lo[{cn},{sn},{m['name']}]", [N(x) for x in mm["data"]["lo_data"]], [N(x) for x in m["data"]["lo_data"]], key=key + ":histosys")
                    env.eq_all(f"{label}:histosys-hi[{cn},{sn},{m['name']}]", [N(x) for x in mm["data"]["hi_data"]], [N(x) for x in m["data"]["hi_data"]], key=key + ":histosys")
                elif t == "normsys":
                    env.eq(f"{label}:normsys-lo[{cn},{sn},{m['name']}]", mm["data"]["lo"], m["data"]["lo"], key=key + ":normsys")
                    env.eq(f"{label}:normsys-hi[{cn},{sn},{m['name']}]", mm["data"]["hi"], m["data"]["hi"], key=key + ":normsys")
                elif t in ("shapesys", "staterror"):
                    env.eq_all(f"{label}:{t}[{cn},{sn},{m['name']}]", [N(x) for x in mm["data"]], [N(x) for x in m["data"]], key=key + f":{t}-abs-rel-conversion")
    o0 = {o["name"]: o["data"] for o in w0["observations"]}
    o1 = {o["name"]: o["data"] for o in w1["observations"]}
    for cn in o0:
        env.eq_all(f"{label}:observation[{cn}]", [N(x) for x in o1.get(cn, [])], [N(x) for x in o0[cn]], key=key + ":observations")
    m0, m1 = w0["measurements"], w1["measurements"]
    env.holds(f"{label}:measurements", [m["name"] for m in m0] == [m["name"] for m in m1] and [m["config"]["poi"] for m in m0] == [m["config"]["poi"] for m in m1], key=key + ":poi")
    if not models:
        return      # signed yields: the model-level comparison would fork on every sign; the data comparison above decides
    # models: suggestions and likelihood
    try:
        M0 = pyhf.Workspace(w0).model()
    except pyhf.exceptions.InvalidModifier:
        return
    M1 = pyhf.Workspace(w1).model()
    g0, g1 = M0.config, M1.config
    env.holds(f"{label}:parameters", list(g0.par_order) == list(g1.par_order) and g0.npars == g1.npars and list(g0.auxdata_order) == list(g1.auxdata_order), key=key + ":parameters")
    if list(g0.par_order) != list(g1.par_order):
        return
    env.holds(f"{label}:fixed-flags", list(g0.suggested_fixed()) == list(g1.suggested_fixed()), key=key + ":fixed")
    want_init = [N(x) for x in g0.suggested_init()]
    if "lumi" in g0.par_order:
        want_init[g0.par_slice("lumi").start] = N(g0.param_set("lumi").auxdata[0])     # one Lumi attribute: the central value
    env.eq_all(f"{label}:inits", [N(x) for x in g1.suggested_init()], want_init, key=key + ":inits")
    has_lumi = "lumi" in g0.par_order
    for name in g0.par_order:
        sl = g0.par_slice(name)
        if name == "lumi":
            continue       # HistFactory XML carries no lumi bounds: re-import uses +-5 sigma by construction
        for i in range(sl.start, sl.stop):
            env.eq(f"{label}:lo[{name},{i}]", g1.suggested_bounds()[i][0], g0.suggested_bounds()[i][0], key=key + ":bounds")
            env.eq(f"{label}:hi[{name},{i}]", g1.suggested_bounds()[i][1], g0.suggested_bounds()[i][1], key=key + ":bounds")
    env.eq_all(f"{label}:auxdata", [N(x) for x in g1.auxdata], [N(x) for x in g0.auxdata], key=key + (":lumi-auxdata" if has_lumi else ":auxdata"))
    tb = env.backend
    th = [env.sym(f"th{i}") for i in range(g0.npars)]
    x = [env.sym(f"x{i}") for i in range(g0.nmaindata + g0.nauxdata)]
    l0 = M0.logpdf(tb.astensor(th), tb.astensor(x))[0]
    l1 = M1.logpdf(tb.astensor(th), tb.astensor(x))[0]
    kk = key + (":likelihood:lumi" if has_lumi else ":likelihood")
    if env.mode == "sym" and _terms(l0) is not None and _terms(l1) is not None:
        _match_terms(env, f"{label}:likelihood", _terms(l1), _terms(l0), kk, replay_as=f"{label}:logpdf")
    elif env.mode == "sym":
        env.eq(f"{label}:logpdf", l1, l0, key=kk)
    if env.mode != "sym":
        env.eq(f"{label}:logpdf", l1, l0, key=kk)


def harness_for(item):
    kind, idx, tag = item

    def roundtrip(env):
        env.install_backend()
        ws = _build(env, idx)
        before = copy.deepcopy(ws)
        with tempfile.TemporaryDirectory(prefix="verif_c18_") as d, xmlshim.installed(env.mode == "sym"):
            back = _export_import(env, ws, d)
        from .c12 import _same_structure
        env.holds("input-untouched", _same_structure(before, ws), key="no-mutation")
        _compare(env, "rt", ws, back, "roundtrip", models=(tag != "signed-yield"))

    def cycles(env):
        env.install_backend()
        ws = _build(env, idx)
        with tempfile.TemporaryDirectory(prefix="verif_c18_") as d, xmlshim.installed(env.mode == "sym"):
            w1 = _export_import(env, ws, Path(d) / "one")
            # second cycle into the same directory (documented cache reset in between), then a different one
            R.clear_filecache()
            w2 = _export_import(env, w1, Path(d) / "one")
            w3 = _export_import(env, w2, Path(d) / "two")
        _compare(env, "cycle2", ws, w2, "cycles")
        _compare(env, "cycle3", ws, w3, "cycles")

    def dirs(env):
        """nothing read from a previous import is reused for a different file"""
        env.install_backend()
        wa = _build(env, idx, prefix="A_")
        wb = _build(env, idx, prefix="B_")
        with tempfile.TemporaryDirectory(prefix="verif_c18_") as d, xmlshim.installed(env.mode == "sym"):
            ba = _export_import(env, wa, Path(d) / "dirA")
            bb = _export_import(env, wb, Path(d) / "dirB")      # no cache reset in between
        _compare(env, "first", wa, ba, "dirs")
        _compare(env, "second", wb, bb, "dirs:second-import")

    def measurement(env):
        """build_measurement -> XML text -> process_measurements: lumi central value and uncertainty recovered"""
        import xml.etree.ElementTree as ET
        env.install_backend()
        N = env.num
        la, ls = env.sym("lumi", positive=True), env.sym("lumisigma", positive=True)
        meas = {"name": "m", "config": {"poi": "mu", "parameters": [
            {"name": "lumi", "auxdata": [la], "sigmas": [ls], "inits": [la], "bounds": [[0.0, 10.0]], "fixed": True},
            {"name": "k", "fixed": True}, {"name": "mu", "fixed": False}]}}
        with xmlshim.installed(env.mode == "sym"):
            el = W.build_measurement(meas, {"k": "normsys", "mu": "normfactor", "lumi": "lumi"})
            top = ET.Element("Combination")
            top.append(el)
            text = ET.tostring(top)
            back = R.process_measurements(ET.ElementTree(ET.fromstring(text)), other_parameter_configs=[{"name": "mu", "inits": [1.0], "bounds": [[0.0, 10.0]]}])
        env.holds("one-measurement", len(back) == 1 and back[0]["name"] == "m" and back[0]["config"]["poi"] == "mu", key="measurement:structure")
        pars = {p["name"]: p for p in back[0]["config"]["parameters"]}
        env.eq("lumi:auxdata", pars["lumi"]["auxdata"][0], la, key="measurement:lumi-auxdata")
        env.eq("lumi:inits", pars["lumi"]["inits"][0], la, key="measurement:lumi-inits")
        env.eq("lumi:sigmas", pars["lumi"]["sigmas"][0], ls, key="measurement:lumi-sigma")
        env.holds("lumi:fixed", pars["lumi"].get("fixed") is True, key="measurement:fixed")
        env.holds("k:fixed", pars.get("k", {}).get("fixed") is True, key="measurement:fixed")
        env.holds("mu:not-fixed", not pars.get("mu", {}).get("fixed", False), key="measurement:fixed")

    return {"roundtrip": roundtrip, "cycles": cycles, "dirs": dirs, "measurement": measurement}[kind]

"""C14 - toy p-values are exact tail fractions of correctly laid-out pseudo-data (distributional claims outside)."""
from __future__ import annotations

import numpy as np

import pyhf
from pyhf.infer import calculators as CALC

from .. import oracle, shapes
from ..stubs import FitStubs
from . import common

ID = "C14"
BUDGET = {"quick": dict(max_paths=512, timeout_ms=20000), "thorough": dict(max_paths=4096, timeout_ms=60000)}
TWIN_EVERY = {"quick": 3, "thorough": 5}
VALIDATE_EVERY = {"quick": 3, "thorough": 5}

META = {
    "assumptions": [
        "random draws are replaced by fresh symbolic tensors of shape sample_shape + parameter shape, tagged with the distribution parameters they were drawn from (the sampler is environment)",
        "fit / fixed_poi_fit replaced by contract stubs (as C06/C08)",
        "draws items: inside pyhf.tensor.numpy_backend the random source (scipy.stats.norm/poisson, numpy.random) is a variate stub: standard-normal variates are free symbols z_k and a normal draw of the source is loc + scale*z_k; Poisson variates are free non-negative symbols recorded with the rate they were requested at; the backend's own normal_dist/poisson_dist(...).sample code runs on top of it",
        "claimed: p-value = #{samples >= value}/n for all sample vectors and values (ties, outside range, any input shape), its range and monotonicity; layout of sampled data (shape, which distribution feeds which position, with which parameters); each numpy-backend normal draw is loc + scale * (one standard-normal variate, used once) and each Poisson draw a variate generated at that entry's rate; toy calculator wiring (hypothesis of each toy set, per-toy statistic on that toy's row with the caller's settings, CLs = CLsb/CLb)",
    ],
    "bounds": {
        "quick": "sample vectors of length 1..5; sampling layout on family F (+8 seeded shapes), sample shapes (), (2,), (2,2); draw routines on parameter vectors of length 2 and the same sample shapes; toy calculator with ntoys = 2 for {q, qtilde, q0}; median expected value for n <= 3",
        "thorough": "sample vectors up to 7, 200 seeded shapes, ntoys = 3",
    },
    "stubs": ["backend poisson_dist/normal_dist .sample", "pyhf.tensor.numpy_backend.norm/poisson/np.random (variate source, draws items)", "pyhf.infer.test_statistics.fit/fixed_poi_fit", "pyhf.infer.calculators.fixed_poi_fit"],
    "outside_claim": ["everything distributional beyond the affine/identity relation to the source's variates: integer-valuedness and the law of the source's own variates, agreement with exact tail probabilities within binomial error (RNG + statistics, not encodable)", "draw routines of the jax/pytorch/tensorflow backends (library distribution objects, compiled)", "expected_value percentiles other than the median (symbolic percentile rank)"],
}


def _family(tier, seed):
    return shapes.family_core() + shapes.family_plus(seed, 8 if tier == "quick" else 200)


def items(tier, seed):
    out = []
    for n in range(1, 6 if tier == "quick" else 8):
        out.append(("empirical", n))
    for n in (1, 2, 3):
        out.append(("median", n))
    for i, sh in enumerate(_family(tier, seed)):
        out.append(("layout", i, sh["tag"]))
    for ts in ("q", "qtilde", "q0"):
        out.append(("toycalc", ts, 2 if tier == "quick" else 3))
    for dist in ("normal", "poisson"):
        for shp in ((), (2,), (2, 2)) + (((3, 1, 2),) if tier != "quick" else ()):
            out.append(("draws", dist, shp))
    return out


def harness_for(item):
    kind = item[0]

    def empirical(env):
        n = item[1]
        tb = env.install_backend()
        N = env.num
        s = [env.sym(f"s{i}") for i in range(n)]
        v, w = env.sym("v"), env.sym("w")
        for shaped in (tb.astensor(s), tb.astensor([s]), tb.astensor([[x] for x in s])):
            d = CALC.EmpiricalDistribution(shaped)
            p = d.pvalue(v)
            cnt = N(0)
            for x in s:
                cnt = cnt + env.ite(N(x) >= N(v), N(1), N(0))
            env.eq(f"pvalue{np.shape(shaped)}", p, cnt / n, key="empirical:fraction")
        d = CALC.EmpiricalDistribution(tb.astensor(s))
        p, q = d.pvalue(v), d.pvalue(w)
        env.holds("range", (N(p) >= 0) & (N(p) <= 1) if env.mode == "sym" else 0 <= float(p) <= 1, key="empirical:range")
        env.holds("monotone", (~(N(v) <= N(w))) | (N(p) >= N(q)) if env.mode == "sym" else (not v <= w) or float(p) >= float(q), key="empirical:monotone")
        above = True
        below = True
        if env.mode == "sym":
            from ..sym import SB
            ab, be = SB(True), SB(True)
            for x in s:
                ab = ab & (N(v) > N(x))
                be = be & (N(v) <= N(x))
            env.holds("above-range->0", (~ab) | (N(p) == 0), key="empirical:outside")
            env.holds("below-range->1", (~be) | (N(p) == 1), key="empirical:outside")
            # a tie counts: the value equal to a sample includes that sample
            env.holds("tie-counts", (~(N(v) == N(s[0]))) | (N(p) >= N(1) / n), key="empirical:ties")
        else:
            env.holds("above-range->0", (not all(v > x for x in s)) or float(p) == 0, key="empirical:outside")
            env.holds("below-range->1", (not all(v <= x for x in s)) or float(p) == 1, key="empirical:outside")
            env.holds("tie-counts", (not v == s[0]) or float(p) >= 1 / n - 1e-15, key="empirical:ties")

    def median(env):
        n = item[1]
        tb = env.install_backend()
        N = env.num
        s = [env.sym(f"s{i}") for i in range(n)]
        d = CALC.EmpiricalDistribution(tb.astensor(s))
        m = d.expected_value(0)
        # the median is bracketed by the order statistics: at least half of the samples on either side
        lo = N(0)
        hi = N(0)
        for x in s:
            lo = lo + env.ite(N(x) <= N(m), N(1), N(0))
            hi = hi + env.ite(N(x) >= N(m), N(1), N(0))
        env.holds("median:half-below", lo * 2 >= n, key="empirical:median")
        env.holds("median:half-above", hi * 2 >= n, key="empirical:median")

    def layout(env):
        sh = _family(env.tier, env.seed)[item[1]]
        tb = env.install_backend()
        N = env.num
        spec, model, _, _ = common.build_model(env, sh)
        cfg = model.config
        nd = cfg.nmaindata + cfg.nauxdata
        pars = common.par_symbols(env, model)
        if env.mode != "sym":
            # concrete replay: shapes on the real sampler; which distribution feeds which position with the two
            # numpy draw routines replaced by identity stubs (pass A: draw = mean, pass B: draw = scale / -1 for Poisson)
            import importlib
            nb = importlib.import_module("pyhf.tensor.numpy_backend")
            for shp in ((), (2,), (2, 2)):
                smp = model.make_pdf(tb.astensor(pars)).sample(shp)
                env.holds(f"shape{shp}", tuple(np.shape(smp)) == tuple(shp) + (nd,), key="sample:shape")
            user = common.user_cfg(spec)
            terms = oracle.constraint_terms(env, spec, user, common.par_lookup(model, pars))
            rates = model.expected_actualdata(tb.astensor(pars))
            saved = (nb._BasicPoisson.sample, nb._BasicNormal.sample)
            try:
                for shp in ((), (2,), (2, 2)):
                    idx0 = tuple(0 for _ in shp)
                    nb._BasicPoisson.sample = lambda self, ss: np.broadcast_to(np.asarray(self.rate, dtype=float), tuple(ss) + np.shape(self.rate)).copy()
                    nb._BasicNormal.sample = lambda self, ss: np.broadcast_to(np.asarray(self.loc, dtype=float), tuple(ss) + np.shape(self.loc)).copy()
                    A = np.asarray(model.make_pdf(tb.astensor(pars)).sample(shp))
                    nb._BasicPoisson.sample = lambda self, ss: -np.ones(tuple(ss) + np.shape(self.rate))
                    nb._BasicNormal.sample = lambda self, ss: np.broadcast_to(np.asarray(self.scale, dtype=float), tuple(ss) + np.shape(self.loc)).copy()
                    B = np.asarray(model.make_pdf(tb.astensor(pars)).sample(shp))
                    if tuple(A.shape) != tuple(shp) + (nd,) or tuple(B.shape) != tuple(shp) + (nd,):
                        continue
                    A, B = A[idx0], B[idx0]
                    for b in range(cfg.nmaindata):
                        env.eq(f"draw-mean{shp}[{b}]", A[b], rates[b], key="sample:main-rate")
                        env.eq(f"draw-scale{shp}[{b}]", B[b], -1, key="sample:main-position")
                    p = cfg.nmaindata
                    for n in cfg.auxdata_order:
                        for t in terms[n]:
                            if t[0] == "N":
                                env.eq(f"draw-mean{shp}[{p}]", A[p], t[1], key="sample:aux-params")
                                env.eq(f"draw-scale{shp}[{p}]", B[p], t[2], key="sample:aux-params")
                            else:
                                env.eq(f"draw-mean{shp}[{p}]", A[p], N(t[1]) * N(t[2]), key="sample:aux-params")
                                env.eq(f"draw-scale{shp}[{p}]", B[p], -1, key="sample:aux-kind")
                            p += 1
            finally:
                nb._BasicPoisson.sample, nb._BasicNormal.sample = saved
            return
        user = common.user_cfg(spec)
        terms = oracle.constraint_terms(env, spec, user, common.par_lookup(model, pars))
        rates = model.expected_actualdata(tb.astensor(pars))
        for shp in ((), (2,), (2, 2)):
            env.sym_only = False
            env.backend.samples.clear()
            smp = model.make_pdf(tb.astensor(pars)).sample(shp)
            env.holds(f"shape{shp}", tuple(np.shape(smp)) == tuple(shp) + (nd,), key="sample:shape")
            if tuple(np.shape(smp)) != tuple(shp) + (nd,):
                continue
            env.sym_only = True      # which draw feeds which position is only observable on the sampler stub
            recs = env.backend.samples
            pois = [r for r in recs if r["kind"] == "poisson"]
            norm = [r for r in recs if r["kind"] == "normal"]
            main = [r for r in pois if tuple(np.shape(r["params"][0])) == (cfg.nmaindata,)]
            env.holds(f"one-main-draw{shp}", len(main) >= 1, key="sample:main")
            if not main:
                continue
            main = main[0]
            idx0 = tuple(0 for _ in shp)
            flat = smp[idx0] if shp else smp
            for b in range(cfg.nmaindata):
                env.replay_as = f"draw-scale{shp}[{b}]"
                env.holds(f"main-position{shp}[{b}]", flat[b] is main["out"][idx0 + (b,)], key="sample:main-position")
                env.replay_as = f"draw-mean{shp}[{b}]"
                env.eq(f"main-rate{shp}[{b}]", main["params"][0][b], rates[b], key="sample:main-rate")
            env.replay_as = None
            # auxiliary entries: the draw at aux position p comes from the constraint term of that component
            p = cfg.nmaindata
            for n in cfg.auxdata_order:
                for t in terms[n]:
                    src = None
                    for r in recs:
                        if r is main:
                            continue
                        for j in range(np.shape(r["out"])[-1]):
                            if r["out"][idx0 + (j,)] is flat[p]:
                                src = (r, j)
                    env.replay_as = f"draw-scale{shp}[{p}]"
                    if src is None:
                        env.fail(f"aux-source{shp}[{n}]", "auxiliary entry is not a draw of any constraint distribution", key="sample:aux-position")
                        p += 1
                        continue
                    r, j = src
                    if t[0] == "N":
                        env.holds(f"aux-kind{shp}[{p}]", r["kind"] == "normal", key="sample:aux-kind")
                        if r["kind"] == "normal":
                            env.replay_as = f"draw-mean{shp}[{p}]"
                            env.eq(f"aux-mean{shp}[{p}]", r["params"][0][j], t[1], key="sample:aux-params")
                            env.replay_as = f"draw-scale{shp}[{p}]"
                            env.eq(f"aux-sigma{shp}[{p}]", r["params"][1][j], t[2], key="sample:aux-params")
                    else:
                        env.holds(f"aux-kind{shp}[{p}]", r["kind"] == "poisson", key="sample:aux-kind")
                        if r["kind"] == "poisson":
                            env.replay_as = f"draw-mean{shp}[{p}]"
                            env.eq(f"aux-rate{shp}[{p}]", r["params"][0][j], t[1] * t[2], key="sample:aux-params")
                    p += 1
            env.replay_as = None

    def toycalc(env):
        ts, ntoys = item[1], item[2]
        tb = env.install_backend()
        N = env.num
        sh = next(s for s in shapes.family_core() if s["tag"] == "single:normsys")
        model = pyhf.Model(shapes.realize(env, sh["spec"]), poi_name="mu")
        cfg = model.config
        nd = cfg.nmaindata + cfg.nauxdata
        data = tb.astensor([env.sym(f"d{i}") for i in range(nd)])
        mu = env.sym("mu_test", nonneg=True)
        init = [env.sym(f"init{i}") for i in range(cfg.npars)]
        bounds = [[env.sym(f"lo{i}"), env.sym(f"hi{i}")] for i in range(cfg.npars)]
        bounds[cfg.poi_index] = [0.0, env.sym("poi_hi", positive=True)]
        fixed = [False] * cfg.npars
        stubs = FitStubs(env)
        calc = CALC.ToyCalculator(data, model, init, bounds, fixed, test_stat=ts, ntoys=ntoys, track_progress=False)
        with stubs.install():
            sb, b = calc.distributions(mu)
            nfit_dist = len(stubs.calls)
            tstat = calc.teststatistic(mu)
        calls = stubs.calls
        env.holds("n-fits", nfit_dist == 2 + 2 * 2 * ntoys and len(calls) == nfit_dist + 2, key="toys:fits")
        if nfit_dist != 2 + 2 * 2 * ntoys:
            return
        env.eq("signal-hypothesis", calls[0]["poi_val"], mu, key="toys:hypothesis")
        env.eq("background-hypothesis", calls[1]["poi_val"], 1.0 if ts == "q0" else 0.0, key="toys:hypothesis")
        for k in range(len(calls)):
            env.holds(f"fit{k}:caller-settings", calls[k]["init"] is init and calls[k]["bounds"] is bounds and calls[k]["fixed"] is fixed, key="toys:settings")
        env.holds("fit0/1:observed-data", calls[0]["data"] is data and calls[1]["data"] is data, key="toys:data")
        if env.mode == "sym":
            env.sym_only = True
            recs = env.backend.samples
            # the first pair of draws (main, constraint) is generated at the signal fit, the second at the background fit
            mains = [r for r in recs if r["kind"] == "poisson" and tuple(np.shape(r["params"][0])) == (cfg.nmaindata,)]
            env.holds("two-toy-sets", len(mains) == 2 and all(tuple(r["sample_shape"]) == (ntoys,) for r in recs), key="toys:sampling")
            if len(mains) == 2:
                for which, r, c in (("signal", mains[0], calls[0]), ("background", mains[1], calls[1])):
                    want = model.expected_actualdata(tb.astensor(c["pars"]))
                    env.eq_all(f"{which}-toys:rates", r["params"][0], [N(x) for x in want], key="toys:sampling-pars")
                # each toy's statistic is computed on that toy's row
                for t in range(ntoys):
                    for which, r, base in (("signal", mains[0], 2), ("background", mains[1], 2 + 2 * ntoys)):
                        for off in (0, 1):
                            c = calls[base + 2 * t + off]
                            row = c["data"]
                            ok = all(row[bn] is r["out"][t, bn] for bn in range(cfg.nmaindata))
                            env.holds(f"{which}-toy{t}-fit{off}:own-row", ok, key="toys:per-toy-data")
        env.sym_only = False
        # distributions hold the per-toy statistics; p-values are their tail fractions; CLs is the ratio
        from .c06 import oracle_stat
        name = {"q": "qmu", "qtilde": "qmu_tilde", "q0": "q0"}[ts]
        pi = cfg.poi_index

        def stat(k):
            tested = N(0) if ts == "q0" else N(mu)
            return oracle_stat(env, name, tested, calls[k + 1]["pars"][pi], calls[k]["v"], calls[k + 1]["v"])
        sig = [stat(2 + 2 * t) for t in range(ntoys)]
        bkg = [stat(2 + 2 * ntoys + 2 * t) for t in range(ntoys)]
        env.eq_all("signal-distribution", sb.samples, sig, key="toys:distribution")
        env.eq_all("background-distribution", b.samples, bkg, key="toys:distribution")
        obs = stat(nfit_dist)
        env.eq("observed-statistic", tstat, obs, key="toys:observed")
        CLsb, CLb, CLs = calc.pvalues(tstat, sb, b)
        f_sb = N(0)
        f_b = N(0)
        for x in sig:
            f_sb = f_sb + env.ite(x >= obs, N(1), N(0))
        for x in bkg:
            f_b = f_b + env.ite(x >= obs, N(1), N(0))
        env.eq("CLsb", CLsb, f_sb / ntoys, key="toys:pvalues")
        env.eq("CLb", CLb, f_b / ntoys, key="toys:pvalues")
        if env.mode == "sym":
            env.holds("CLs=CLsb/CLb", (~(N(CLb) > 0)) | (N(CLs) * N(CLb) == N(CLsb)), key="toys:pvalues")
        else:
            env.holds("CLs=CLsb/CLb", (not float(CLb) > 0) or abs(float(CLs) * float(CLb) - float(CLsb)) < 1e-12, key="toys:pvalues")
        # the same calculator asked again, for another tested value: both toy sets are generated and evaluated afresh
        mu2 = env.sym("mu_test2", nonneg=True)
        stubs2 = FitStubs(env, prefix="again")
        with stubs2.install():
            sb2, b2 = calc.distributions(mu2)
        c2 = stubs2.calls
        env.holds("second-call:n-fits", len(c2) == 2 + 2 * 2 * ntoys, key="toys:second-call")
        if len(c2) == 2 + 2 * 2 * ntoys:
            env.eq("second-call:signal-hypothesis", c2[0]["poi_val"], mu2, key="toys:second-call")
            tested2 = N(0) if ts == "q0" else N(mu2)
            for t in range(ntoys):
                for which, base, dist in (("signal", 2, sb2), ("background", 2 + 2 * ntoys, b2)):
                    k = base + 2 * t
                    env.eq(f"second-call:{which}-toy{t}:tested-value", c2[k]["poi_val"], tested2, key="toys:second-call")
                    env.eq(f"second-call:{which}-toy{t}:statistic", dist.samples[t],
                           oracle_stat(env, name, tested2, c2[k + 1]["pars"][pi], c2[k]["v"], c2[k + 1]["v"]), key="toys:second-call")

    def draws(env):
        """the numpy backend's own draw routines (_BasicNormal/_BasicPoisson.sample through normal_dist/poisson_dist)
        with the random source stubbed: a normal draw is loc + scale * z for one standard-normal variate z of the source,
        a Poisson draw is a variate the source generated at exactly that rate"""
        import importlib
        import z3
        from ..stubs import patched
        from ..sym import zexpr, SV
        nb = importlib.import_module("pyhf.tensor.numpy_backend")
        dist, shp = item[1], tuple(item[2])
        tb = env.install_backend()
        N = env.num
        n = 2
        src = _VariateSource(env, tb)
        real = nb.numpy_backend()
        if dist == "normal":
            loc = [env.sym(f"loc{j}") for j in range(n)]
            scale = [env.sym(f"scale{j}", positive=True) for j in range(n)]
            with patched((nb, "norm", src.norm), (nb, "poisson", src.poisson), (nb, "np", src.np_shim())):
                out = real.normal_dist(tb.astensor(loc), tb.astensor(scale)).sample(shp)
        else:
            rate = [env.sym(f"rate{j}", positive=True) for j in range(n)]
            with patched((nb, "norm", src.norm), (nb, "poisson", src.poisson), (nb, "np", src.np_shim())):
                out = real.poisson_dist(tb.astensor(rate)).sample(shp)
        env.holds("shape", tuple(np.shape(out)) == shp + (n,), key=f"draws:{dist}:shape")
        if tuple(np.shape(out)) != shp + (n,):
            return
        out = np.asarray(out, dtype=object)
        used = []
        for idx in np.ndindex(*out.shape):
            j = idx[-1]
            o = out[idx]
            lab = f"{dist}-draw{list(idx)}"
            key = f"draws:{dist}:value"
            if dist == "normal":
                if env.mode == "sym":
                    zs = [k for k in _consts(zexpr(SV(o))) if k in src.zid]
                    if len(zs) != 1:
                        env.fail(lab, f"draw depends on {len(zs)} standard-normal variates of the source instead of one", key=key)
                        continue
                    k = src.zid[zs[0]]
                else:
                    k = min(range(len(src.z)), key=lambda k: abs(float(o) - (float(loc[j]) + float(scale[j]) * float(src.z[k])))) if src.z else None
                    if k is None:
                        env.fail(lab, "no variate was requested from the random source", key=key)
                        continue
                env.eq(lab, o, N(loc[j]) + N(scale[j]) * N(src.z[k]), key=key)
                used.append(k)
            else:
                if env.mode == "sym":
                    e = zexpr(SV(o))
                    k = src.kid.get(e.get_id()) if z3.is_const(e) else None
                else:
                    c = [k for k in range(len(src.k)) if float(src.k[k]) == float(o)]
                    k = min(c, key=lambda k: abs(float(src.krate[k]) - float(rate[j]))) if c else None
                if k is None:
                    env.fail(lab, "entry is not a variate generated by the Poisson source", key=key)
                    continue
                env.eq(lab, src.krate[k], rate[j], key=key)
                used.append(k)
        env.holds("each-variate-used-once", len(set(used)) == len(used) or env.mode != "sym", key=f"draws:{dist}:independent")

    return {"empirical": empirical, "median": median, "layout": layout, "toycalc": toycalc, "draws": draws}[kind]


def _consts(e):
    """ids of the uninterpreted constants of a z3 term"""
    import z3
    seen, out, todo = set(), [], [e]
    while todo:
        t = todo.pop()
        if t.get_id() in seen:
            continue
        seen.add(t.get_id())
        if z3.is_const(t) and t.decl().kind() == z3.Z3_OP_UNINTERPRETED:
            out.append(t.get_id())
        todo.extend(t.children())
    return out


class _VariateSource:
    """stands in for scipy.stats.norm/poisson and numpy.random inside pyhf.tensor.numpy_backend: standard-normal variates
    are the symbols z0, z1, ... (a normal draw is loc + scale * z), Poisson variates the symbols k0, k1, ... each recorded
    with the rate it was generated at"""

    def __init__(self, env, tb):
        self.env, self.tb = env, tb
        self.z, self.zid, self.k, self.kid, self.krate = [], {}, [], {}, []

    def _arr(self, vals, shape):
        a = np.empty(len(vals), dtype=object)
        for i, v in enumerate(vals):
            a[i] = v
        t = self.tb.astensor(list(a)) if len(vals) else self.tb.astensor([])
        return self.tb.reshape(t, tuple(shape))

    def _shape(self, size, *params):
        if size is None:
            return tuple(np.broadcast_shapes(*[np.shape(p) for p in params])) if params else ()
        return (size,) if isinstance(size, (int, np.integer)) else tuple(size)

    def standard_normal(self, size=None):
        from ..sym import zexpr, SV
        shape = self._shape(size)
        vals = []
        for _ in range(int(np.prod(shape, dtype=int))):
            v = self.env.sym(f"z{len(self.z)}")
            if self.env.mode == "sym":
                self.zid[zexpr(SV(v)).get_id()] = len(self.z)
            self.z.append(v)
            vals.append(v)
        return self._arr(vals, shape)

    def normal(self, loc=0.0, scale=1.0, size=None):
        shape = self._shape(size, loc, scale)
        return loc + scale * self.standard_normal(shape)

    def poisson_draw(self, lam=1.0, size=None):
        from ..sym import zexpr, SV
        shape = self._shape(size, lam)
        lamb = np.broadcast_to(np.asarray(lam, dtype=object), shape)
        vals = []
        for idx in np.ndindex(*shape):
            v = self.env.sym(f"k{len(self.k)}", nonneg=True)
            if self.env.mode == "sym":
                self.kid[zexpr(SV(v)).get_id()] = len(self.k)
            self.k.append(v)
            self.krate.append(lamb[idx])
            vals.append(v)
        return self._arr(vals, shape)

    # scipy.stats.norm(loc, scale).rvs(size=...) / scipy.stats.poisson(rate).rvs(size=...)
    def norm(self, loc=0.0, scale=1.0):
        src = self

        class _Frozen:
            def rvs(self, size=None, random_state=None):
                return src.normal(loc, scale, size)
        return _Frozen()

    def poisson(self, mu):
        src = self

        class _Frozen:
            def rvs(self, size=None, random_state=None):
                return src.poisson_draw(mu, size)
        return _Frozen()

    def np_shim(self):
        src = self

        class _Random:
            standard_normal = staticmethod(src.standard_normal)
            normal = staticmethod(src.normal)
            poisson = staticmethod(src.poisson_draw)

            @staticmethod
            def default_rng(seed=None):
                return _Random

            @staticmethod
            def seed(x=None):
                return None

        class _NP:
            random = _Random

            def __getattr__(self, k):
                return getattr(np, k)
        return _NP()

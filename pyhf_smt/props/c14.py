"""C14 - toy p-values are exact tail fractions of correctly laid-out pseudo-data (distributional claims outside)."""
from __future__ import annotations

import numpy as np

import pyhf
from pyhf.infer import calculators as CALC

from .. import oracle, shapes
from ..stubs import FitStubs
from . import common

ID = "C14"
BUDGET = {"quick": dict(max_paths=512, timeout_ms=20000), "thorough": dict(max_paths=4096, timeout_ms=60000)}
TWIN_EVERY = {"quick": 3, "thorough": 5}
VALIDATE_EVERY = {"quick": 3, "thorough": 5}

META = {
    "assumptions": [
        "random draws are replaced by fresh symbolic tensors of shape sample_shape + parameter shape, tagged with the distribution parameters they were drawn from (the sampler is environment)",
        "fit / fixed_poi_fit replaced by contract stubs (as C06/C08)",
        "claimed: p-value = #{samples >= value}/n for all sample vectors and values (ties, outside range, any input shape), its range and monotonicity; layout of sampled data (shape, which distribution feeds which position, with which parameters); toy calculator wiring (hypothesis of each toy set, per-toy statistic on that toy's row with the caller's settings, CLs = CLsb/CLb)",
    ],
    "bounds": {
        "quick": "sample vectors of length 1..5; sampling layout on family F (+8 seeded shapes), sample shapes (), (2,), (2,2); toy calculator with ntoys = 2 for {q, qtilde, q0}; median expected value for n <= 3",
        "thorough": "sample vectors up to 7, 200 seeded shapes, ntoys = 3",
    },
    "stubs": ["backend poisson_dist/normal_dist .sample", "pyhf.infer.test_statistics.fit/fixed_poi_fit", "pyhf.infer.calculators.fixed_poi_fit"],
    "outside_claim": ["everything distributional: integer-valuedness, mean/variance of draws, agreement with exact tail probabilities within binomial error (RNG + statistics, not encodable)", "expected_value percentiles other than the median (symbolic percentile rank)"],
}


def _family(tier, seed):
    return shapes.family_core() + shapes.family_plus(seed, 8 if tier == "quick" else 200)


def items(tier, seed):
    out = []
    for n in range(1, 6 if tier == "quick" else 8):
        out.append(("empirical", n))
    for n in (1, 2, 3):
        out.append(("median", n))
    for i, sh in enumerate(_family(tier, seed)):
        out.append(("layout", i, sh["tag"]))
    for ts in ("q", "qtilde", "q0"):
        out.append(("toycalc", ts, 2 if tier == "quick" else 3))
    return out


def harness_for(item):
    kind = item[0]

    def empirical(env):
        n = item[1]
        tb = env.install_backend()
        N = env.num
        s = [env.sym(f"s{i}") for i in range(n)]
        v, w = env.sym("v"), env.sym("w")
        for shaped in (tb.astensor(s), tb.astensor([s]), tb.astensor([[x] for x in s])):
            d = CALC.EmpiricalDistribution(shaped)
            p = d.pvalue(v)
            cnt = N(0)
            for x in s:
                cnt = cnt + env.ite(N(x) >= N(v), N(1), N(0))
            env.eq(f"pvalue{np.shape(shaped)}", p, cnt / n, key="empirical:fraction")
        d = CALC.EmpiricalDistribution(tb.astensor(s))
        p, q = d.pvalue(v), d.pvalue(w)
        env.holds("range", (N(p) >= 0) & (N(p) <= 1) if env.mode == "sym" else 0 <= float(p) <= 1, key="empirical:range")
        env.holds("monotone", (~(N(v) <= N(w))) | (N(p) >= N(q)) if env.mode == "sym" else (not v <= w) or float(p) >= float(q), key="empirical:monotone")
        above = True
        below = True
        if env.mode == "sym":
            from ..sym import SB
            ab, be = SB(True), SB(True)
            for x in s:
                ab = ab & (N(v) > N(x))
                be = be & (N(v) <= N(x))
            env.holds("above-range->0", (~ab) | (N(p) == 0), key="empirical:outside")
            env.holds("below-range->1", (~be) | (N(p) == 1), key="empirical:outside")
            # a tie counts: the value equal to a sample includes that sample
            env.holds("tie-counts", (~(N(v) == N(s[0]))) | (N(p) >= N(1) / n), key="empirical:ties")
        else:
            env.holds("above-range->0", (not all(v > x for x in s)) or float(p) == 0, key="empirical:outside")
            env.holds("below-range->1", (not all(v <= x for x in s)) or float(p) == 1, key="empirical:outside")
            env.holds("tie-counts", (not v == s[0]) or float(p) >= 1 / n - 1e-15, key="empirical:ties")

    def median(env):
        n = item[1]
        tb = env.install_backend()
        N = env.num
        s = [env.sym(f"s{i}") for i in range(n)]
        d = CALC.EmpiricalDistribution(tb.astensor(s))
        m = d.expected_value(0)
        # the median is bracketed by the order statistics: at least half of the samples on either side
        lo = N(0)
        hi = N(0)
        for x in s:
            lo = lo + env.ite(N(x) <= N(m), N(1), N(0))
            hi = hi + env.ite(N(x) >= N(m), N(1), N(0))
        env.holds("median:half-below", lo * 2 >= n, key="empirical:median")
        env.holds("median:half-above", hi * 2 >= n, key="empirical:median")

    def layout(env):
        sh = _family(env.tier, env.seed)[item[1]]
        tb = env.install_backend()
        N = env.num
        spec, model, _, _ = common.build_model(env, sh)
        cfg = model.config
        nd = cfg.nmaindata + cfg.nauxdata
        pars = common.par_symbols(env, model)
        if env.mode != "sym":
            # concrete replay: only the shapes can be observed on the real sampler
            for shp in ((), (2,), (2, 2)):
                smp = model.make_pdf(tb.astensor(pars)).sample(shp)
                env.holds(f"shape{shp}", tuple(np.shape(smp)) == tuple(shp) + (nd,), key="sample:shape")
            return
        user = common.user_cfg(spec)
        terms = oracle.constraint_terms(env, spec, user, common.par_lookup(model, pars))
        rates = model.expected_actualdata(tb.astensor(pars))
        for shp in ((), (2,), (2, 2)):
            env.sym_only = False
            env.backend.samples.clear()
            smp = model.make_pdf(tb.astensor(pars)).sample(shp)
            env.holds(f"shape{shp}", tuple(np.shape(smp)) == tuple(shp) + (nd,), key="sample:shape")
            if tuple(np.shape(smp)) != tuple(shp) + (nd,):
                continue
            env.sym_only = True      # which draw feeds which position is only observable on the sampler stub
            recs = env.backend.samples
            pois = [r for r in recs if r["kind"] == "poisson"]
            norm = [r for r in recs if r["kind"] == "normal"]
            main = [r for r in pois if tuple(np.shape(r["params"][0])) == (cfg.nmaindata,)]
            env.holds(f"one-main-draw{shp}", len(main) >= 1, key="sample:main")
            if not main:
                continue
            main = main[0]
            idx0 = tuple(0 for _ in shp)
            flat = smp[idx0] if shp else smp
            for b in range(cfg.nmaindata):
                env.holds(f"main-position{shp}[{b}]", flat[b] is main["out"][idx0 + (b,)], key="sample:main-position")
                env.eq(f"main-rate{shp}[{b}]", main["params"][0][b], rates[b], key="sample:main-rate")
            # auxiliary entries: the draw at aux position p comes from the constraint term of that component
            p = cfg.nmaindata
            for n in cfg.auxdata_order:
                for t in terms[n]:
                    src = None
                    for r in recs:
                        if r is main:
                            continue
                        for j in range(np.shape(r["out"])[-1]):
                            if r["out"][idx0 + (j,)] is flat[p]:
                                src = (r, j)
                    if src is None:
                        env.fail(f"aux-source{shp}[{n}]", "auxiliary entry is not a draw of any constraint distribution", key="sample:aux-position")
                        p += 1
                        continue
                    r, j = src
                    if t[0] == "N":
                        env.holds(f"aux-kind{shp}[{p}]", r["kind"] == "normal", key="sample:aux-kind")
                        if r["kind"] == "normal":
                            env.eq(f"aux-mean{shp}[{p}]", r["params"][0][j], t[1], key="sample:aux-params")
                            env.eq(f"aux-sigma{shp}[{p}]", r["params"][1][j], t[2], key="sample:aux-params")
                    else:
                        env.holds(f"aux-kind{shp}[{p}]", r["kind"] == "poisson", key="sample:aux-kind")
                        if r["kind"] == "poisson":
                            env.eq(f"aux-rate{shp}[{p}]", r["params"][0][j], t[1] * t[2], key="sample:aux-params")
                    p += 1

    def toycalc(env):
        ts, ntoys = item[1], item[2]
        tb = env.install_backend()
        N = env.num
        sh = next(s for s in shapes.family_core() if s["tag"] == "single:normsys")
        model = pyhf.Model(shapes.realize(env, sh["spec"]), poi_name="mu")
        cfg = model.config
        nd = cfg.nmaindata + cfg.nauxdata
        data = tb.astensor([env.sym(f"d{i}") for i in range(nd)])
        mu = env.sym("mu_test", nonneg=True)
        init = [env.sym(f"init{i}") for i in range(cfg.npars)]
        bounds = [[env.sym(f"lo{i}"), env.sym(f"hi{i}")] for i in range(cfg.npars)]
        bounds[cfg.poi_index] = [0.0, env.sym("poi_hi", positive=True)]
        fixed = [False] * cfg.npars
        stubs = FitStubs(env)
        calc = CALC.ToyCalculator(data, model, init, bounds, fixed, test_stat=ts, ntoys=ntoys, track_progress=False)
        with stubs.install():
            sb, b = calc.distributions(mu)
            nfit_dist = len(stubs.calls)
            tstat = calc.teststatistic(mu)
        calls = stubs.calls
        env.holds("n-fits", nfit_dist == 2 + 2 * 2 * ntoys and len(calls) == nfit_dist + 2, key="toys:fits")
        if nfit_dist != 2 + 2 * 2 * ntoys:
            return
        env.eq("signal-hypothesis", calls[0]["poi_val"], mu, key="toys:hypothesis")
        env.eq("background-hypothesis", calls[1]["poi_val"], 1.0 if ts == "q0" else 0.0, key="toys:hypothesis")
        for k in range(len(calls)):
            env.holds(f"fit{k}:caller-settings", calls[k]["init"] is init and calls[k]["bounds"] is bounds and calls[k]["fixed"] is fixed, key="toys:settings")
        env.holds("fit0/1:observed-data", calls[0]["data"] is data and calls[1]["data"] is data, key="toys:data")
        if env.mode == "sym":
            env.sym_only = True
            recs = env.backend.samples
            # the first pair of draws (main, constraint) is generated at the signal fit, the second at the background fit
            mains = [r for r in recs if r["kind"] == "poisson" and tuple(np.shape(r["params"][0])) == (cfg.nmaindata,)]
            env.holds("two-toy-sets", len(mains) == 2 and all(tuple(r["sample_shape"]) == (ntoys,) for r in recs), key="toys:sampling")
            if len(mains) == 2:
                for which, r, c in (("signal", mains[0], calls[0]), ("background", mains[1], calls[1])):
                    want = model.expected_actualdata(tb.astensor(c["pars"]))
                    env.eq_all(f"{which}-toys:rates", r["params"][0], [N(x) for x in want], key="toys:sampling-pars")
                # each toy's statistic is computed on that toy's row
                for t in range(ntoys):
                    for which, r, base in (("signal", mains[0], 2), ("background", mains[1], 2 + 2 * ntoys)):
                        for off in (0, 1):
                            c = calls[base + 2 * t + off]
                            row = c["data"]
                            ok = all(row[bn] is r["out"][t, bn] for bn in range(cfg.nmaindata))
                            env.holds(f"{which}-toy{t}-fit{off}:own-row", ok, key="toys:per-toy-data")
        env.sym_only = False
        # distributions hold the per-toy statistics; p-values are their tail fractions; CLs is the ratio
        from .c06 import oracle_stat
        name = {"q": "qmu", "qtilde": "qmu_tilde", "q0": "q0"}[ts]
        pi = cfg.poi_index

        def stat(k):
            tested = N(0) if ts == "q0" else N(mu)
            return oracle_stat(env, name, tested, calls[k + 1]["pars"][pi], calls[k]["v"], calls[k + 1]["v"])
        sig = [stat(2 + 2 * t) for t in range(ntoys)]
        bkg = [stat(2 + 2 * ntoys + 2 * t) for t in range(ntoys)]
        env.eq_all("signal-distribution", sb.samples, sig, key="toys:distribution")
        env.eq_all("background-distribution", b.samples, bkg, key="toys:distribution")
        obs = stat(nfit_dist)
        env.eq("observed-statistic", tstat, obs, key="toys:observed")
        CLsb, CLb, CLs = calc.pvalues(tstat, sb, b)
        f_sb = N(0)
        f_b = N(0)
        for x in sig:
            f_sb = f_sb + env.ite(x >= obs, N(1), N(0))
        for x in bkg:
            f_b = f_b + env.ite(x >= obs, N(1), N(0))
        env.eq("CLsb", CLsb, f_sb / ntoys, key="toys:pvalues")
        env.eq("CLb", CLb, f_b / ntoys, key="toys:pvalues")
        if env.mode == "sym":
            env.holds("CLs=CLsb/CLb", (~(N(CLb) > 0)) | (N(CLs) * N(CLb) == N(CLsb)), key="toys:pvalues")
        else:
            env.holds("CLs=CLsb/CLb", (not float(CLb) > 0) or abs(float(CLs) * float(CLb) - float(CLsb)) < 1e-12, key="toys:pvalues")

    return {"empirical": empirical, "median": median, "layout": layout, "toycalc": toycalc}[kind]

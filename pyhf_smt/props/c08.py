"""C08 - hypothesis tests: stable result layout, Asimov dataset, wiring of fits (analytic values outside)."""
from __future__ import annotations

import itertools

import numpy as np

import pyhf
from pyhf.infer import calculators as CALC

from .. import shapes
from ..stubs import FitStubs
from . import common
from .c06 import oracle_stat

ID = "C08"
BUDGET = {"quick": dict(max_paths=64, timeout_ms=30000), "thorough": dict(max_paths=256, timeout_ms=120000)}
TWIN_EVERY = {"quick": 6, "thorough": 6}
VALIDATE_EVERY = {"quick": 6, "thorough": 6}

META = {
    "assumptions": [
        "fit / fixed_poi_fit replaced by contract stubs (arbitrary symbolic points and objective values; fixed fit returns the POI at the requested value; free-fit POI within its bounds)",
        "Phi, sqrt uninterpreted with axioms as in C07; the Asimov statistic q_A > 0 (hypothesis of the property)",
        "toy-based calculator: sampling replaced by fresh symbolic pseudo-data of the documented shape, ntoys = 1 (layout only; toy p-values are C14)",
        "claimed: result layout for all 16 flag combinations, Asimov dataset = model expectation at the conditional fit for mu=0 (1 for discovery), order and arguments of the five fits, refusal without POI / with fixed POI, each returned number is the C07 formula applied to the statistics the fits define",
    ],
    "bounds": {
        "quick": "{q, qtilde, q0} x 16 return-flag combinations x asymptotics (2 models) + toybased layout (ntoys=1); all data, tested mu and fit results symbolic",
        "thorough": "same on 4 models, custom init/bounds/fixed variations",
    },
    "stubs": ["pyhf.infer.test_statistics.fit/fixed_poi_fit", "pyhf.infer.calculators.fixed_poi_fit", "backend sampler", "concrete replays only: numpy_backend.percentile called with method= instead of the interpolation= keyword removed in numpy 2"],
    "outside_claim": ["'equal the analytic asymptotic values to within the fit tolerance' on closed-form models: needs the real optimisers (C05 outside-claim)"],
}

MODELS = ["single:normsys", "poi:last", "rich", "single:shapesys"]


def items(tier, seed):
    out = []
    nm = 2 if tier == "quick" else 4
    flags = list(itertools.product((False, True), repeat=4))
    for ts in ("q", "qtilde", "q0"):
        for k, fl in enumerate(flags):
            for mi in range(nm):
                if tier == "quick" and (k + mi) % 2:
                    continue
                out.append(("asym", ts, fl, MODELS[mi]))
    for ts in ("qtilde", "q0"):
        for fl in ((False, False, False, False), (True, True, True, True), (True, False, True, False)):
            out.append(("toys", ts, fl, MODELS[0]))
    # the same flow with concrete POI bounds (code that converts a bound with float() cannot run on a symbol)
    for ts in ("q", "qtilde", "q0"):
        out.append(("asymc", ts, (True, True, True, True), MODELS[0]))
    out.append(("prereq", None, None, MODELS[0]))
    out.append(("asimov", None, None, MODELS[2]))
    return out


def _model(env, tag, poi="__default__"):
    sh = next(s for s in shapes.family_core() if s["tag"] == tag)
    spec = shapes.realize(env, sh["spec"])
    return pyhf.Model(spec, poi_name=sh["poi"] if poi == "__default__" else poi)


def _phi(env, x):
    return env.uf("Phi", x)


def _pvals(env, ts, q, qA):
    """(CLsb, CLb, CLs, exp_CLsb[5], exp_CLb[5], exp_CLs[5]) per arXiv:1007.1727 as quoted in C07"""
    N = env.num
    s, a = q.sqrt(), qA.sqrt()
    if ts in ("q", "q0"):
        sb, b = 1 - _phi(env, s), 1 - _phi(env, s - a)
    else:
        sb = env.ite(q <= qA, 1 - _phi(env, s), 1 - _phi(env, (q + qA) / (2 * a)))
        b = env.ite(q <= qA, 1 - _phi(env, s - a), 1 - _phi(env, (q - qA) / (2 * a)))
    esb = [_phi(env, N(-n) - a) for n in (2, 1, 0, -1, -2)]
    eb = [_phi(env, N(-n)) for n in (2, 1, 0, -1, -2)]
    return sb, b, sb / b, esb, eb, [x / y for x, y in zip(esb, eb)]


def harness_for(item):
    kind, ts, flags, mtag = item
    if kind == "prereq":
        return lambda env: _prereq(env, mtag)
    if kind == "asimov":
        return lambda env: _asimov(env, mtag)

    def h(env):
        tb = env.install_backend()
        N = env.num
        model = _model(env, mtag)
        cfg = model.config
        pi = cfg.poi_index
        nd = cfg.nmaindata + cfg.nauxdata
        data = tb.astensor([env.sym(f"d{i}") for i in range(nd)])
        mu = env.sym("mu_test", nonneg=True)
        init = [env.sym(f"init{i}") for i in range(cfg.npars)]
        bounds = [[env.sym(f"lo{i}"), env.sym(f"hi{i}")] for i in range(cfg.npars)]
        bounds[pi] = [0.0 if ts != "q" else env.sym("poi_lo"), env.sym("poi_hi", positive=True)]
        if kind == "asymc":
            bounds[pi] = [-5.0 if ts == "q" else 0.0, 10.0]
        fixed = [False] * cfg.npars
        rt, re_, rs, rc = flags
        stubs = FitStubs(env)
        kw = dict(test_stat=ts)
        if kind == "toys":
            kw.update(calctype="toybased", ntoys=1, track_progress=False)
        with stubs.install():
            out = pyhf.infer.hypotest(mu, data, model, init, bounds, fixed, return_tail_probs=rt, return_expected=re_,
                                      return_expected_set=rs, return_calculator=rc, **kw)
        n_extra = int(rt) + int(re_) + int(rs) + int(rc)
        if n_extra == 0:
            if isinstance(out, (tuple, list)):
                env.fail("layout:bare", "a bare tensor is documented when no extras are requested", key="layout")
                return
            parts = [out]
        else:
            if not isinstance(out, tuple) or len(out) != 1 + n_extra:
                env.fail("layout:length", f"{1 + n_extra} entries expected, got {type(out).__name__} of {len(out) if hasattr(out, '__len__') else '?'}", key="layout")
                return
            parts = list(out)
        calls = stubs.calls
        if kind == "toys":
            # layout only: types and lengths of the requested extras in the documented order
            k = 1
            if rt:
                env.holds("toys:tail-probs", isinstance(parts[k], list) and len(parts[k]) == (1 if ts == "q0" else 2), key="layout:toys")
                k += 1
            if re_:
                env.holds("toys:median", not isinstance(parts[k], list), key="layout:toys")
                k += 1
            if rs:
                env.holds("toys:band", isinstance(parts[k], list) and len(parts[k]) == 5, key="layout:toys")
                k += 1
            if rc:
                env.holds("toys:calculator", isinstance(parts[k], CALC.ToyCalculator), key="layout:toys")
            exp_fits = 2 + 2 + 2 * 1 * 2
            env.holds("toys:number-of-fits", len(calls) == exp_fits, key="wiring:toys")
            if len(calls) == exp_fits:
                env.eq("toys:signal-toys-at-tested-mu", calls[2]["poi_val"], mu, key="wiring:toys")
                env.eq("toys:bkg-toys-at-asimov-mu", calls[3]["poi_val"], 1.0 if ts == "q0" else 0.0, key="wiring:toys")
                smp = env.backend.samples if env.mode == "sym" else None
                if smp is not None and len(smp) >= 2:
                    env.sym_only = True      # draw shapes are only observable on the sampler stub
                    env.holds("toys:sample-shape", all(tuple(x["sample_shape"]) == (1,) for x in smp), key="wiring:toys")
                    env.sym_only = False
            return
        # ---- asymptotics: wiring of the five fits --------------------------------------------------------
        kinds = [c["kind"] for c in calls]
        if kinds != ["fixed", "free", "fixed", "fixed", "free"]:
            env.fail("fit-order", f"{kinds}", key="wiring:fit-order")
            return
        tested = N(0) if ts == "q0" else N(mu)
        amu = 1.0 if ts == "q0" else 0.0
        env.eq("fit0:poi", calls[0]["poi_val"], tested, key="wiring:tested-mu")
        env.eq("fit2:asimov-mu", calls[2]["poi_val"], amu, key="wiring:asimov-mu")
        env.eq("fit3:poi", calls[3]["poi_val"], tested, key="wiring:tested-mu")
        for k in (0, 1, 2):
            env.holds(f"fit{k}:observed-data", calls[k]["data"] is data, key="wiring:data")
        for k in range(5):
            env.holds(f"fit{k}:caller-settings", calls[k]["init"] is init and calls[k]["bounds"] is bounds and calls[k]["fixed"] is fixed, key="wiring:settings")
        asimov_want = model.expected_data(tb.astensor(calls[2]["pars"]))
        for k in (3, 4):
            env.eq_all(f"fit{k}:asimov-data", calls[k]["data"], [N(x) for x in asimov_want], key="asimov-data")
        q = oracle_stat(env, {"q": "qmu", "qtilde": "qmu_tilde", "q0": "q0"}[ts], tested, calls[1]["pars"][pi], calls[0]["v"], calls[1]["v"])
        qA = oracle_stat(env, {"q": "qmu", "qtilde": "qmu_tilde", "q0": "q0"}[ts], tested, calls[4]["pars"][pi], calls[3]["v"], calls[4]["v"])
        env.assume(qA > 0)
        sb, b, s_, esb, eb, es = _pvals(env, ts, q, qA)
        k = 0
        env.eq("first", parts[0], sb if ts == "q0" else s_, key=f"{ts}:value:first")
        k = 1
        if rt:
            tp = parts[k]
            if not isinstance(tp, list) or len(tp) != (1 if ts == "q0" else 2):
                env.fail("tail-probs:layout", "tail probabilities must be [CLb] for q0 and [CLsb, CLb] otherwise", key="layout")
            elif ts == "q0":
                env.eq("tail:CLb", tp[0], b, key=f"{ts}:value:tail")
            else:
                env.eq("tail:CLsb", tp[0], sb, key=f"{ts}:value:tail")
                env.eq("tail:CLb", tp[1], b, key=f"{ts}:value:tail")
            k += 1
        band = esb if ts == "q0" else es
        if re_:
            if isinstance(parts[k], list):
                env.fail("median:layout", "median expected must be a single value", key="layout")
            else:
                env.eq("median", parts[k], band[2], key=f"{ts}:value:median")
            k += 1
        if rs:
            if not isinstance(parts[k], list) or len(parts[k]) != 5:
                env.fail("band:layout", "expected set must be a list of five values", key="layout")
            else:
                env.eq_all("band", parts[k], band, key=f"{ts}:value:band")
            k += 1
        if rc:
            c = parts[k]
            env.holds("calculator", isinstance(c, CALC.AsymptoticCalculator), key="layout")
            fp = c.fitted_pars
            for nm, idx in (("fixed_poi_fit_to_data", 0), ("free_fit_to_data", 1), ("asimov_pars", 2), ("fixed_poi_fit_to_asimov", 3), ("free_fit_to_asimov", 4)):
                env.eq_all(f"fitted_pars.{nm}", getattr(fp, nm), [N(x) for x in calls[idx]["pars"]], key="fitted_pars")
    return h


def _prereq(env, mtag):
    tb = env.install_backend()
    model = _model(env, mtag)
    cfg = model.config
    data = tb.astensor([env.sym(f"d{i}") for i in range(cfg.nmaindata + cfg.nauxdata)])
    nopoi = _model(env, mtag, poi=None)
    for ts in ("q", "qtilde", "q0"):
        for calctype in ("asymptotics", "toybased"):
            kw = dict(test_stat=ts, calctype=calctype)
            if calctype == "toybased":
                kw.update(ntoys=1, track_progress=False)
            try:
                with FitStubs(env, prefix=f"np{ts}{calctype}").install():
                    pyhf.infer.hypotest(1.0, data, nopoi, **kw)
                env.fail(f"no-poi[{ts},{calctype}]", "hypothesis test accepted a model without POI", key="prereq:no-poi")
            except pyhf.exceptions.UnspecifiedPOI:
                env.holds(f"no-poi[{ts},{calctype}]", True, key="prereq:no-poi")
            except Exception as e:  # noqa: BLE001
                env.fail(f"no-poi[{ts},{calctype}]", f"raised {type(e).__name__}: {e}", key="prereq:no-poi")
            fixed = [False] * cfg.npars
            fixed[cfg.poi_index] = True
            try:
                with FitStubs(env, prefix=f"fx{ts}{calctype}").install():
                    pyhf.infer.hypotest(1.0, data, model, fixed_params=fixed, **kw)
                env.fail(f"fixed-poi[{ts},{calctype}]", "hypothesis test accepted a fixed POI", key="prereq:fixed-poi")
            except pyhf.exceptions.InvalidModel:
                env.holds(f"fixed-poi[{ts},{calctype}]", True, key="prereq:fixed-poi")
            except Exception as e:  # noqa: BLE001
                env.fail(f"fixed-poi[{ts},{calctype}]", f"raised {type(e).__name__}: {e}", key="prereq:fixed-poi")


def _asimov(env, mtag):
    tb = env.install_backend()
    N = env.num
    model = _model(env, mtag)
    cfg = model.config
    data = tb.astensor([env.sym(f"d{i}") for i in range(cfg.nmaindata + cfg.nauxdata)])
    amu = env.sym("asimov_mu")
    init, bounds, fixed = cfg.suggested_init(), cfg.suggested_bounds(), cfg.suggested_fixed()
    for rfp in (False, True):
        stubs = FitStubs(env, prefix=f"as{int(rfp)}")
        with stubs.install():
            out = CALC.generate_asimov_data(amu, data, model, init, bounds, fixed, return_fitted_pars=rfp)
        if len(stubs.calls) != 1 or stubs.calls[0]["kind"] != "fixed":
            env.fail(f"asimov[{rfp}]:fits", "exactly one fixed-POI fit expected", key="asimov:fit")
            continue
        c = stubs.calls[0]
        env.eq(f"asimov[{rfp}]:mu", c["poi_val"], amu, key="asimov:fit")
        env.holds(f"asimov[{rfp}]:args", c["data"] is data and c["init"] is init and c["bounds"] is bounds and c["fixed"] is fixed, key="asimov:fit")
        ad = out[0] if rfp else out
        want = model.expected_data(tb.astensor(c["pars"]))
        env.eq_all(f"asimov[{rfp}]:data", ad, [N(x) for x in want], key="asimov:data")
        # main part = expected rates, auxiliary part = constraint means, at the fitted point
        rates = model.expected_actualdata(tb.astensor(c["pars"]))
        aux = model.expected_auxdata(tb.astensor(c["pars"]))
        env.eq_all(f"asimov[{rfp}]:main+aux", ad, [N(x) for x in rates] + [N(x) for x in aux], key="asimov:data")
        if rfp:
            env.eq_all("asimov:fitted-pars", out[1], [N(x) for x in c["pars"]], key="asimov:data")

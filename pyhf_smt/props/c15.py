"""C15 - invariance of the likelihood function under likelihood-preserving rewrites."""
from __future__ import annotations

import copy

import numpy as np

import pyhf

from .. import decide, shapes
from ..shapes import channel, histosys, lumi, normfactor, normsys, sample, shapefactor, shapesys, staterror
from ..sym import SV, zexpr
from . import common

ID = "C15"
BUDGET = {"quick": dict(max_paths=64, timeout_ms=30000), "thorough": dict(max_paths=256, timeout_ms=120000)}
TWIN_EVERY = {"quick": 5, "thorough": 10}
VALIDATE_EVERY = {"quick": 4, "thorough": 8}

META = {
    "assumptions": [
        "all inference in pyhf is a functional of logpdf / expected_data (wiring of fits, test statistics and hypotest onto them is C05/C06/C08): the solver-decidable core of the property is that the rewritten model has the same likelihood function for all parameter points and all data, under the induced parameter and data correspondence",
        "log-density primitives uninterpreted; equality by decomposition into terms matched on their datum and pairwise equal arguments; added constraint terms must be exactly the stated constant-normalisation terms",
        "yields, uncertainties, normsys factors, scale k > 0",
    ],
    "bounds": {
        "quick": "rewrites R1 (reverse all lists), R2 (rename channels/samples/modifiers incl. POI), R3 (zero-yield sample without / with a normfactor), R4 (histosys with hi=lo=nominal, normsys with hi=lo=1), R5 (split a channel's bins into two channels), R6 (merge two samples with identical modifiers), R7 (scale signal by k, mu -> mu/k) on the applicable shapes of family F + 8 seeded shapes",
        "thorough": "as quick on 200 seeded shapes plus compositions of two rewrites",
    },
    "stubs": [],
    "outside_claim": ["numerical agreement of fits / CLs / limits beyond fit tolerance, backends and optimisers (needs the real optimisers)"],
}


def _family(tier, seed):
    fam = shapes.family_core() + shapes.family_plus(seed, 8 if tier == "quick" else 200)
    # dedicated shape for merging: two samples with identical modifier lists
    m = shapes.model([channel("SR", sample("sig", 2, normfactor(), normsys("jes")),
                              sample("b1", 2, normsys("xs"), histosys("sh", 2), staterror("st", 2)),
                              sample("b2", 2, normsys("xs"), histosys("sh", 2), staterror("st", 2)))])
    m["tag"] = "mergeable"
    m2 = shapes.model([channel("SR", sample("sig", 3, normfactor()),
                               sample("b1", 3, normfactor("nb"), shapefactor("sf")),
                               sample("b2", 3, normfactor("nb"), shapefactor("sf"))),
                       channel("CR", sample("b1", 1, normfactor("nb")))])
    m2["tag"] = "mergeable2"
    # merging when one of the two samples has no MC uncertainty in a bin where it has a yield
    m3 = shapes.model([channel("SR", sample("sig", 2, normfactor()),
                               sample("b1", 2, normsys("xs"), staterror("st", 2, zero=(0,))),
                               sample("b2", 2, normsys("xs"), staterror("st", 2)))])
    m3["tag"] = "mergeable-zero-unc"
    # ... or no yield in a bin where its shape variation is non-zero
    m4 = shapes.model([channel("SR", sample("sig", 2, normfactor()),
                               sample("b1", 2, normsys("xs"), histosys("sh", 2), zero=(0,)),
                               sample("b2", 2, normsys("xs"), histosys("sh", 2)))])
    m4["tag"] = "mergeable-zero-yield"
    return fam + [m, m2, m3, m4]


REWRITES = ["R1", "R2", "R3a", "R3b", "R4h", "R4n", "R5", "R5s", "R6", "R7"]


def items(tier, seed):
    out = []
    fam = _family(tier, seed)
    for i, sh in enumerate(fam):
        for r in REWRITES:
            if _applicable(r, sh):
                out.append((i, sh["tag"], r))
    if tier == "thorough":
        for i, sh in enumerate(fam[:12]):
            for r1, r2 in (("R2", "R5"), ("R5", "R7"), ("R3b", "R2"), ("R4n", "R1")):
                if _applicable(r1, sh) and _applicable(r2, sh):
                    out.append((i, sh["tag"], r1 + "+" + r2))
    return out


def _chan(spec, name):
    return next(c for c in spec["channels"] if c["name"] == name)


def _signal(spec):
    """(channel idx, sample idx) of samples carrying the POI normfactor 'mu' (all of them)"""
    return [(ci, si) for ci, c in enumerate(spec["channels"]) for si, s in enumerate(c["samples"])
            if any(m["type"] == "normfactor" and m["name"] == "mu" for m in s["modifiers"])]


def _applicable(r, sh):
    spec = sh["spec"]
    if "+" in r:
        return all(_applicable(x, sh) for x in r.split("+"))
    if r == "R5":
        return any(len(c["samples"][0]["data"]) >= 2 for c in spec["channels"]) and not _shared_binwise(spec)
    if r == "R5s":
        # split keeping the staterror name shared between the two parts (one parameter per bin, same order)
        return (not _shared_binwise(spec)) and any(len(c["samples"][0]["data"]) >= 2 and any(m["type"] == "staterror" for s in c["samples"] for m in s["modifiers"])
                                                   for c in spec["channels"])
    if r == "R6":
        return sh["tag"].startswith("mergeable")
    if r == "R7":
        sig = _signal(spec)
        if not sig or sh.get("poi") != "mu":
            return False
        for ci, si in sig:
            if any(m["type"] in ("staterror", "shapesys") for m in spec["channels"][ci]["samples"][si]["modifiers"]):
                return False
        return True
    if r == "R2":
        return True
    return True


def _shared_binwise(spec):
    """bin-wise modifier names used in more than one channel (splitting those is not a pure rename)"""
    seen = {}
    for c, s, m in shapes.walk_mods(spec):
        if m["type"] in ("shapesys", "staterror", "shapefactor"):
            seen.setdefault(m["name"], set()).add(c["name"])
    return any(len(v) > 1 for v in seen.values())


# ---- rewrites: (spec) -> (new spec, parmap, chanmap, new_constraints) ---------------------------------
# parmap: new-parameter-name -> ("old", oldname, offset) | ("new",) | ("scaled", oldname, k)
# chanmap: new channel name -> (old channel name, bin offset)
def rewrite(env, r, spec, poi):
    N = env.num
    spec = copy.deepcopy(spec)
    ident_par = None
    chanmap = {c["name"]: (c["name"], 0) for c in spec["channels"]}
    parmap = {}
    extra = []      # names of added constrained parameters (unit-gaussian constant-normalisation terms)
    newpoi = poi
    if r == "R1":
        spec["channels"] = [dict(c, samples=[dict(s, modifiers=list(reversed(s["modifiers"]))) for s in reversed(c["samples"])])
                            for c in reversed(spec["channels"])]
        if spec.get("parameters"):
            spec["parameters"] = list(reversed(spec["parameters"]))
    elif r == "R2":
        cm = {c["name"]: "zz_" + c["name"][::-1] for c in spec["channels"]}
        sm = {}
        mm = {}
        for c, s, m in shapes.walk_mods(spec):
            sm[s["name"]] = "Q" + s["name"]
            if m["type"] != "lumi":
                mm[m["name"]] = "a_" + m["name"][::-1]
        for c in spec["channels"]:
            for s in c["samples"]:
                sm.setdefault(s["name"], "Q" + s["name"])
        for c in spec["channels"]:
            for s in c["samples"]:
                s["name"] = sm[s["name"]]
                for m in s["modifiers"]:
                    m["name"] = mm.get(m["name"], m["name"])
            c["name"] = cm[c["name"]]
        for p in spec.get("parameters", []):
            p["name"] = mm.get(p["name"], p["name"])
        chanmap = {cm[k]: (k, 0) for k in cm}
        parmap = {mm[k]: ("old", k, 0) for k in mm}
        newpoi = mm.get(poi, poi)
    elif r in ("R3a", "R3b"):
        c = spec["channels"][0]
        nb = len(c["samples"][0]["data"])
        mods = [normfactor("zz_extra")] if r == "R3b" else []
        c["samples"].append({"name": "zz_empty", "data": [0.0] * nb, "modifiers": mods})
        if r == "R3b":
            parmap["zz_extra"] = ("new",)
    elif r in ("R4h", "R4n"):
        c = spec["channels"][-1]
        s = c["samples"][-1]
        if r == "R4h":
            s["modifiers"].append({"name": "zz_null", "type": "histosys", "data": {"lo_data": list(s["data"]), "hi_data": list(s["data"])}})
        else:
            s["modifiers"].append({"name": "zz_null", "type": "normsys", "data": {"lo": 1.0, "hi": 1.0}})
        parmap["zz_null"] = ("new",)
        extra.append("zz_null")
    elif r in ("R5", "R5s"):
        keep_stat = r == "R5s"
        if keep_stat:
            ci = next(i for i, c in enumerate(spec["channels"]) if len(c["samples"][0]["data"]) >= 2
                      and any(m["type"] == "staterror" for s in c["samples"] for m in s["modifiers"]))
        else:
            ci = next(i for i, c in enumerate(spec["channels"]) if len(c["samples"][0]["data"]) >= 2)
        c = spec["channels"][ci]
        nb = len(c["samples"][0]["data"])
        k = nb // 2
        parts = []
        for tagp, lo, hi in ((("_a", 0, k), ("_b", k, nb)) if keep_stat else (("_lo", 0, k), ("_hi", k, nb))):
            cc = copy.deepcopy(c)
            cc["name"] = c["name"] + tagp
            for s in cc["samples"]:
                s["data"] = s["data"][lo:hi]
                for m in s["modifiers"]:
                    t = m["type"]
                    if t == "histosys":
                        m["data"] = {"lo_data": m["data"]["lo_data"][lo:hi], "hi_data": m["data"]["hi_data"][lo:hi]}
                    elif t == "staterror" and keep_stat:
                        m["data"] = m["data"][lo:hi]      # same name in both parts: one shared parameter set
                    elif t in ("shapesys", "staterror"):
                        m["data"] = m["data"][lo:hi]
                        parmap[m["name"] + tagp] = ("old", m["name"], lo)
                        m["name"] = m["name"] + tagp
                    elif t == "shapefactor":
                        parmap[m["name"] + tagp] = ("old", m["name"], lo)
                        m["name"] = m["name"] + tagp
            parts.append(cc)
            chanmap[cc["name"]] = (c["name"], lo)
        del chanmap[c["name"]]
        spec["channels"][ci:ci + 1] = parts
        # measurement-level settings of split parameters are split along
        newpars = []
        for p in spec.get("parameters", []):
            hit = [(n, v) for n, v in parmap.items() if v[0] == "old" and v[1] == p["name"]]
            if not hit:
                newpars.append(p)
                continue
            for n, (_, old, lo) in hit:
                hi = lo + (k if lo == 0 else nb - k)
                q = {"name": n}
                for key, val in p.items():
                    if key in ("inits", "bounds", "auxdata", "sigmas", "factors"):
                        q[key] = val[lo:hi]
                    elif key != "name":
                        q[key] = val
                newpars.append(q)
        if spec.get("parameters"):
            spec["parameters"] = newpars
    elif r == "R6":
        c = spec["channels"][0]
        s1 = next(s for s in c["samples"] if s["name"] == "b1")
        s2 = next(s for s in c["samples"] if s["name"] == "b2")
        merged = {"name": "b1", "data": [env.raw(N(a) + N(b)) for a, b in zip(s1["data"], s2["data"])], "modifiers": []}
        for m1, m2 in zip(s1["modifiers"], s2["modifiers"]):
            assert (m1["type"], m1["name"]) == (m2["type"], m2["name"])
            t = m1["type"]
            if t == "histosys":
                d = {k: [env.raw(N(a) + N(b)) for a, b in zip(m1["data"][k], m2["data"][k])] for k in ("lo_data", "hi_data")}
            elif t == "staterror":
                d = [env.raw((N(a) * N(a) + N(b) * N(b)).sqrt()) for a, b in zip(m1["data"], m2["data"])]
            elif t == "normsys":
                d = m1["data"]
                m2["data"] = m1["data"]          # identical modifiers: same factors on both samples
            else:
                d = m1["data"]
            merged["modifiers"].append({"name": m1["name"], "type": t, "data": d})
        specA = spec
        specB = copy.deepcopy(spec)
        cB = specB["channels"][0]
        cB["samples"] = [s for s in cB["samples"] if s["name"] not in ("b1", "b2")] + [merged]
        # other channels keep their b1 sample untouched
        return specA, specB, parmap, chanmap, extra, newpoi
    elif r == "R7":
        k = env.sym("scale_k", positive=True)
        for ci, si in _signal(spec):
            s = spec["channels"][ci]["samples"][si]
            s["data"] = [env.raw(N(k) * N(x)) for x in s["data"]]
            for m in s["modifiers"]:
                if m["type"] == "histosys":
                    m["data"] = {kk: [env.raw(N(k) * N(x)) for x in v] for kk, v in m["data"].items()}
        parmap["mu"] = ("scaled", "mu", k)
    else:
        raise KeyError(r)
    return None, spec, parmap, chanmap, extra, newpoi


def harness_for(item):
    idx, tag, rw = item

    def h(env):
        sh = _family(env.tier, env.seed)[idx]
        assert sh["tag"] == tag
        tb = env.install_backend()
        N = env.num
        specA = shapes.realize(env, sh["spec"])
        poi = sh.get("poi")
        specB, parmap, chanmap, extra = specA, {}, {c["name"]: (c["name"], 0) for c in specA["channels"]}, []
        poiB = poi
        for r in rw.split("+"):
            sA, specB2, pm, cm, ex, poiB = rewrite(env, r, specB, poiB)
            if sA is not None and r == rw:
                specA = sA
            # compose maps
            parmap = _compose_par(parmap, pm)
            chanmap = {n: (chanmap[o][0], chanmap[o][1] + off) for n, (o, off) in cm.items()}
            extra += ex
            specB = specB2
        mA = pyhf.Model(specA, poi_name=poi)
        mB = pyhf.Model(specB, poi_name=poiB)
        cA, cB = mA.config, mB.config
        thA = [env.sym(f"t{i}") for i in range(cA.npars)]
        xA = [env.sym(f"x{i}") for i in range(cA.nmaindata + cA.nauxdata)]
        # ---- induced parameter map ------------------------------------------------------------
        thB = [None] * cB.npars
        for name in cB.par_order:
            sl = cB.par_slice(name)
            kind = parmap.get(name, ("old", name, 0))
            for j in range(sl.stop - sl.start):
                if kind[0] == "new":
                    thB[sl.start + j] = env.sym(f"tnew_{name}_{j}")
                else:
                    old = kind[1]
                    if old not in cA.par_map:
                        env.fail(f"parmap[{name}]", f"parameter {old} missing in the original model", key=f"{rw}:parmap")
                        return
                    v = thA[cA.par_slice(old).start + kind[2] + j] if kind[0] == "old" else thA[cA.par_slice(old).start + j]
                    if kind[0] == "scaled":
                        v = env.raw(N(v) / N(kind[2]))
                    thB[sl.start + j] = v
        # ---- induced data map --------------------------------------------------------------------
        if cB.nmaindata != cA.nmaindata:
            env.fail("nmaindata", f"{cB.nmaindata} vs {cA.nmaindata}", key=f"{rw}:layout")
            return
        xB = [None] * (cB.nmaindata + cB.nauxdata)
        for cn in cB.channels:
            old, off = chanmap[cn]
            slB, slA = cB.channel_slices[cn], cA.channel_slices[old]
            for j in range(slB.stop - slB.start):
                xB[slB.start + j] = xA[slA.start + off + j]
        offA, k = {}, cA.nmaindata
        for n in cA.auxdata_order:
            offA[n] = k
            k += cA.param_set(n).n_parameters
        k = cB.nmaindata
        for n in cB.auxdata_order:
            kind = parmap.get(n, ("old", n, 0))
            for j in range(cB.param_set(n).n_parameters):
                if kind[0] == "new":
                    xB[k] = env.sym(f"xnew_{n}_{j}")
                else:
                    xB[k] = xA[offA[kind[1]] + (kind[2] if kind[0] == "old" else 0) + j]
                k += 1
        if any(v is None for v in xB) or any(v is None for v in thB):
            env.fail("maps", "incomplete correspondence", key=f"{rw}:maps")
            return
        lpA = mA.logpdf(tb.astensor(thA), tb.astensor(xA))[0]
        lpB = mB.logpdf(tb.astensor(thB), tb.astensor(xB))[0]
        # constant-normalisation terms of added unit-gaussian constraints
        const = N(0)
        k = cB.nmaindata
        offB = {}
        for n in cB.auxdata_order:
            offB[n] = k
            k += cB.param_set(n).n_parameters
        for n in extra:
            const = const + env.uf("normal_logpdf", xB[offB[n]], thB[cB.par_slice(n).start], 1)
        _compare_logpdf(env, rw, lpA, lpB, const, extra, xB, offB)
        # expected data correspond
        eA = mA.expected_data(tb.astensor(thA))
        eB = mB.expected_data(tb.astensor(thB))
        for cn in cB.channels:
            old, off = chanmap[cn]
            slB, slA = cB.channel_slices[cn], cA.channel_slices[old]
            for j in range(slB.stop - slB.start):
                env.eq(f"expected[{cn},{j}]", eB[slB.start + j], eA[slA.start + off + j], key=f"{rw}:expected_data")
        # ... including the auxiliary part (Asimov auxiliary data) of every constraint the rewrite carried over
        if len(eA) == cA.nmaindata + cA.nauxdata and len(eB) == cB.nmaindata + cB.nauxdata:
            for n in cB.auxdata_order:
                kind = parmap.get(n, ("old", n, 0))
                if kind[0] != "old" or kind[1] not in offA:
                    continue
                for j in range(cB.param_set(n).n_parameters):
                    env.eq(f"expected-aux[{n},{j}]", eB[offB[n] + j], eA[offA[kind[1]] + kind[2] + j], key=f"{rw}:expected_data")
        else:
            env.fail("expected_data:length", f"{len(eA)} / {len(eB)} entries", key=f"{rw}:expected_data")
        # suggestions correspond (fits start from corresponding problems); the scaled POI is reported only
        iA, iB = cA.suggested_init(), cB.suggested_init()
        bA, bB = cA.suggested_bounds(), cB.suggested_bounds()
        fA, fB = cA.suggested_fixed(), cB.suggested_fixed()
        for name in cB.par_order:
            kind = parmap.get(name, ("old", name, 0))
            if kind[0] != "old":
                continue
            sl = cB.par_slice(name)
            a0 = cA.par_slice(kind[1]).start + kind[2]
            for j in range(sl.stop - sl.start):
                env.eq(f"init[{name},{j}]", iB[sl.start + j], iA[a0 + j], key=f"{rw}:suggestions")
                env.eq(f"lo[{name},{j}]", bB[sl.start + j][0], bA[a0 + j][0], key=f"{rw}:suggestions")
                env.eq(f"hi[{name},{j}]", bB[sl.start + j][1], bA[a0 + j][1], key=f"{rw}:suggestions")
                env.holds(f"fixed[{name},{j}]", bool(fB[sl.start + j]) == bool(fA[a0 + j]), key=f"{rw}:suggestions")
    return h


def _compose_par(first, second):
    """parameter map of (second after first)"""
    out = {}
    for n, v in second.items():
        if v[0] == "new":
            out[n] = v
        else:
            base = first.get(v[1], ("old", v[1], 0))
            if base[0] == "new":
                out[n] = base
            elif v[0] == "old" and base[0] == "old":
                out[n] = ("old", base[1], base[2] + v[2])
            elif v[0] == "scaled" and base[0] == "old":
                out[n] = ("scaled", base[1], v[2])
            else:
                out[n] = (base[0], base[1], base[2])
    for n, v in first.items():
        # names untouched by the second rewrite keep their first mapping
        if n not in {x[1] for x in second.values() if x[0] != "new"} and n not in out:
            out[n] = v
    return out


def _terms(term):
    out = []
    for coef, t in decide.split_sum(zexpr(SV(term))):
        if t is None or coef != 1 or not decide.is_uf_app(t):
            return None
        out.append((t.decl().name(), t.children()))
    return out


def _compare_logpdf(env, rw, lpA, lpB, const, extra, xB, offB):
    if env.mode != "sym":
        env.eq("logpdf", lpB, env.num(lpA) + const, key=f"{rw}:logpdf")
        return
    tA, tB = _terms(lpA), _terms(lpB)
    tC = _terms(const) if extra else []
    if tA is None or tB is None or tC is None:
        env.eq("logpdf", lpB, env.num(lpA) + const, key=f"{rw}:logpdf")
        return
    env.replay_as = "logpdf"
    env.sym_only = True
    pool = list(tB)
    for fname, args in tA + tC:
        hit = [g for g in pool if g[0] == fname and g[1][0].eq(args[0])]
        if not hit:
            env.fail(f"term[{fname}({args[0]})]", "term of the original likelihood has no counterpart on the same datum", key=f"{rw}:logpdf")
            continue
        pool.remove(hit[0])
        for j, (ga, wa) in enumerate(zip(hit[0][1][1:], args[1:])):
            env.eq(f"term[{fname}({args[0]})].arg{j + 1}", SV(ga), SV(wa), key=f"{rw}:logpdf", validate=False)
    if pool:
        env.fail("extra-terms", f"{len(pool)} likelihood terms without counterpart, e.g. {pool[0][0]}({pool[0][1][0]})", key=f"{rw}:logpdf")
    env.replay_as = None
    env.sym_only = False
    if not pool:
        env.holds("logpdf", True, key=f"{rw}:logpdf")

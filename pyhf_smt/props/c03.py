"""C03 - interpolation codes realise their defining piecewise functions for all alpha."""
from __future__ import annotations

import itertools
from fractions import Fraction as F

import numpy as np
import z3

import pyhf

from .. import decide, oracle
from ..sym import CTX, SV, zexpr

ID = "C03"
CODES = {"code0": 0, "code1": 1, "code2": 2, "code4": 4, "code4p": "4p"}
MULT = {"code1", "code4"}
BREAKS = {"code0": [0], "code1": [0], "code2": [-1, 1], "code4": [-1, 1], "code4p": [-1, 1]}
SMOOTH = {"code0": 0, "code1": 0, "code2": 0, "code4": 2, "code4p": 2}   # required differentiability class

BUDGET = {"quick": dict(max_paths=600, timeout_ms=20000), "thorough": dict(max_paths=5000, timeout_ms=120000)}
TWIN_EVERY = {"quick": 3, "thorough": 5}
VALIDATE_EVERY = {"quick": 2, "thorough": 3}

META = {
    "assumptions": [
        "scalar arithmetic over the reals (no IEEE rounding); regime selection is exact because alpha is only compared with literals",
        "pow/log are uninterpreted with instantiated axioms: pow(b,0)=1, pow(b,1)=b, pow(1,e)=1, b>0 => pow(b,e)>0, pow(b,e)*pow(b,-e)=1, log(1)=0, sign of log",
        "down, nominal, up > 0 for the multiplicative codes 1 and 4; unconstrained reals for the additive codes 0, 2, 4p",
        "code4 with alpha0 in {1 (the value pyhf uses), 1/2, 2}",
        "real numpy array semantics for all index bookkeeping (einsum/where/stack on object arrays)",
        "oracle for code2 = continuous quadratic-core/linear-extrapolation function of the property statement (ROOT PiecewiseInterpolation code 2)",
    ],
    "bounds": {
        "quick": "alpha in R (symbolic); down/nom/up symbolic; shapes nsyst<=2 x nhist<=2 x nbins<=2 x nalpha<=2; call histories of <=3 calls over alpha-set widths 1..3; fast and slow classes of all five codes",
        "thorough": "as quick with nsyst<=3, nalpha<=3, all histories of <=3 calls over widths 1..3",
    },
    "stubs": ["math.pow/math.log in the _slow_code1/_slow_code4 classes forwarded to the symbolic scalar (module attribute shim)"],
    "outside_claim": ["jax/pytorch/tensorflow kernels", "rounding inside a piece", "code4 alpha0 other than 1, 1/2, 2"],
}


ALPHA0 = {"code4@1/2": F(1, 2), "code4@2": F(2)}


def items(tier, seed):
    out = []
    for code in ALPHA0:
        out.append(("formula", code, 1, 1, 1, 1))
        out.append(("formula", code, 2, 1, 2, 2))
        out.append(("calculus", code, 1, 1, 1, 1))
        out.append(("slow", code, 1, 1, 1, 1))
        out.append(("history", code, 1, 1, 1, (1, 2, 1)))
    for code in CODES:
        out.append(("formula", code, 1, 1, 1, 1))
        out.append(("formula", code, 2, 2, 2, 2))
        out.append(("calculus", code, 1, 1, 1, 1))
        out.append(("slow", code, 1, 1, 1, 1))
        out.append(("slow", code, 2, 1, 2, 1))
        out.append(("history", code, 2, 1, 2, (1, 2, 1)))
        out.append(("history", code, 1, 2, 1, (2, 3, 2)))
        if tier == "thorough":
            out.append(("formula", code, 3, 2, 2, 3))
            out.append(("slow", code, 2, 2, 1, 2))
            for hist in itertools.product((1, 2, 3), repeat=3):
                if hist not in ((1, 2, 1), (2, 3, 2)) and len(set(hist)) > 1:
                    out.append(("history", code, 2, 1, 1, hist))
    return out


class _MathShim:
    """stands in for the `math` module inside code1.py / code4.py (slow reference classes)"""

    @staticmethod
    def pow(b, e):
        return SV(b) ** SV(e)

    @staticmethod
    def log(x):
        return SV(x).log()


def _base(code):
    return code.split("@")[0]


def _mk(code, hs, fast=True):
    """interpolator instance for a code label (code4@<alpha0> passes the non-default alpha0)"""
    cls = pyhf.interpolators.get(CODES[_base(code)], do_tensorized_calc=fast)
    if code in ALPHA0:
        return cls(hs, alpha0=float(ALPHA0[code]))
    return cls(hs)


def _orc(env, code, a, lo, nom, hi):
    return oracle.interp(env, _base(code), a, lo, nom, hi, alpha0=ALPHA0.get(code, 1))


def _histosets(env, code, ns, nh, nb):
    pos = _base(code) in MULT
    hs = [[[[env.sym(f"{k}_{s}_{h}_{b}", positive=pos) for b in range(nb)] for k in ("lo", "nom", "hi")]
           for h in range(nh)] for s in range(ns)]
    return hs


def _cellkey(code, what):
    return f"{code}:{what}"


def harness_for(item):
    kind, code, ns, nh, nb, na = item

    def formula(env):
        tb = env.install_backend()
        hs = _histosets(env, code, ns, nh, nb)
        al = [[env.sym(f"a_{s}_{k}") for k in range(na)] for s in range(ns)]
        interp = _mk(code, hs)
        res = interp(tb.astensor(al))
        if tuple(np.shape(res)) != (ns, nh, na, nb):
            env.fail("shape", f"result shape {np.shape(res)} != {(ns, nh, na, nb)}", key=_cellkey(code, "shape"))
            return
        for s, h, k, b in itertools.product(range(ns), range(nh), range(na), range(nb)):
            lo, nom, hi = hs[s][h][0][b], hs[s][h][1][b], hs[s][h][2][b]
            side = "formula"
            env.eq(f"formula[{s},{h},{k},{b}]", res[s, h, k, b], _orc(env, code, al[s][k], lo, nom, hi),
                   key=_cellkey(code, side))
        # anchors: neutral at 0, up variation at +1, down variation at -1
        for aval, name in ((0, "0"), (1, "+1"), (-1, "-1")):
            if aval != 0 and ALPHA0.get(code, 1) > 1:
                continue      # with alpha0 > 1 the points +-1 lie in the polynomial core: not anchors by design
            r = interp(tb.astensor([[float(aval)] * na for _ in range(ns)]))
            for s, h, b in itertools.product(range(ns), range(nh), range(nb)):
                lo, nom, hi = (env.num(hs[s][h][j][b]) for j in range(3))
                if _base(code) in MULT:
                    want = {0: env.num(1), 1: hi / nom, -1: lo / nom}[aval]
                else:
                    want = {0: env.num(0), 1: hi - nom, -1: lo - nom}[aval]
                env.eq(f"anchor@{name}[{s},{h},{b}]", r[s, h, 0, b], want, key=_cellkey(code, f"anchor@{name}"))

    def calculus(env):
        """continuity (and C1/C2 for codes 4, 4p) at every breakpoint; extrapolation slopes"""
        tb = env.install_backend()
        eqv = lambda *a, **k: env.eq(*a, validate=False, **k)  # noqa: E731 (mode-dependent obligations)
        hs = _histosets(env, code, 1, 1, 1)
        lo, nom, hi = (hs[0][0][j][0] for j in range(3))
        interp = _mk(code, hs)
        N = env.num
        z0 = ALPHA0.get(code, 1)
        bps_code = [-z0, z0] if code in ALPHA0 else BREAKS[code]
        smooth = SMOOTH[_base(code)]
        if env.mode == "sym":
            a = env.sym("a")
            az = zexpr(a)
            T = zexpr(SV(interp(tb.astensor([[a]]))[0, 0, 0, 0]))
            hyps = list(CTX.assumptions)
            bps = bps_code
            derivs = [T]
            for _ in range(smooth):
                derivs.append(decide.diff(derivs[-1], az))
            for c in bps:
                lower = [x for x in bps if x < c]
                upper = [x for x in bps if x > c]
                left_region = [az < c] + ([az > max(lower)] if lower else [])
                right_region = [az > c] + ([az < min(upper)] if upper else [])
                for order, D in enumerate(derivs):
                    L = decide.subst_value(decide.restrict(D, left_region, hyps), az, c)
                    R = decide.subst_value(decide.restrict(D, right_region, hyps), az, c)
                    eqv(f"C{order}@{float(c):+g}", SV(L), SV(R), key=_cellkey(code, f"C{order}@{float(c):+g}"))
                    if order == 0:
                        M = decide.subst_value(T, az, c)
                        eqv(f"value@{float(c):+g}=left-limit", SV(M), SV(L), key=_cellkey(code, f"C0@{float(c):+g}"))
            # extrapolation: slope (additive) / region formula (multiplicative) of the matching side
            up_reg, dn_reg = [az > max(bps)], [az < min(bps)]
            Tu, Td = decide.restrict(T, up_reg, hyps), decide.restrict(T, dn_reg, hyps)
            if _base(code) in MULT:
                eqv("extrap+:formula", SV(Tu), (N(hi) / N(nom)) ** a, key=_cellkey(code, "extrap+"))
                eqv("extrap-:formula", SV(Td), (N(lo) / N(nom)) ** (-a), key=_cellkey(code, "extrap-"))
            else:
                su, sd = _slopes(env, code, lo, nom, hi)
                eqv("extrap+:slope", SV(decide.diff(Tu, az)), su, key=_cellkey(code, "extrap+"))
                eqv("extrap-:slope", SV(decide.diff(Td, az)), sd, key=_cellkey(code, "extrap-"))
        else:
            # concrete replay: finite differences on the real implementation
            f = lambda x: float(interp(tb.astensor([[x]]))[0, 0, 0, 0])  # noqa: E731
            scale = max(1.0, abs(float(lo)), abs(float(nom)), abs(float(hi)))
            bps = [float(x) for x in bps_code]
            for c in bps:
                e = 2.0 ** -12
                d0 = f(c + 2.0 ** -40) - f(c - 2.0 ** -40)
                _tol(env, f"C0@{c:+g}", d0, 1e-9 * scale, _cellkey(code, f"C0@{c:+g}"))
                _tol(env, f"value@{c:+g}=left-limit", f(c) - f(c - 2.0 ** -40), 1e-9 * scale, _cellkey(code, f"C0@{c:+g}"))
                if smooth >= 1:
                    d1 = (f(c + 2 * e) - f(c + e)) / e - (f(c - e) - f(c - 2 * e)) / e
                    _tol(env, f"C1@{c:+g}", d1, 1e-2 * scale, _cellkey(code, f"C1@{c:+g}"))
                if smooth >= 2:
                    e2 = 2.0 ** -8
                    r = (f(c + 3 * e2) - 2 * f(c + 2 * e2) + f(c + e2)) / e2 ** 2
                    l = (f(c - 3 * e2) - 2 * f(c - 2 * e2) + f(c - e2)) / e2 ** 2
                    _tol(env, f"C2@{c:+g}", r - l, 0.2 * scale * (1 + abs(r)), _cellkey(code, f"C2@{c:+g}"))
            if _base(code) in MULT:
                for x, nm, base, sgn in ((2.5, "extrap+:formula", float(hi) / float(nom), 1), (-2.5, "extrap-:formula", float(lo) / float(nom), -1)):
                    eqv(nm, f(x), base ** (sgn * x), key=_cellkey(code, nm.split(":")[0]))
            else:
                su, sd = _slopes(env, code, lo, nom, hi)
                eqv("extrap+:slope", (f(3.0) - f(2.0)), su, key=_cellkey(code, "extrap+"))
                eqv("extrap-:slope", (f(-2.0) - f(-3.0)), sd, key=_cellkey(code, "extrap-"))

    def slow(env):
        tb = env.install_backend()
        hs = _histosets(env, code, ns, nh, nb)
        al = [[env.sym(f"a_{s}_{k}") for k in range(na)] for s in range(ns)]
        fast = _mk(code, hs)
        import importlib
        mods = [importlib.import_module("pyhf.interpolators.code1"), importlib.import_module("pyhf.interpolators.code4")]
        saved = [m.math for m in mods]
        try:
            if env.mode == "sym":
                for m in mods:
                    m.math = _MathShim
            slowi = _mk(code, hs, fast=False)
            rs = slowi(tb.astensor(al))
        finally:
            for m, sv in zip(mods, saved):
                m.math = sv
        rf = fast(tb.astensor(al))
        for s, h, k, b in itertools.product(range(ns), range(nh), range(na), range(nb)):
            env.eq(f"fast=slow[{s},{h},{k},{b}]", rf[s, h, k, b], rs[s][h][k][b] if isinstance(rs, list) else rs[s, h, k, b],
                   key=_cellkey(code, "fast=slow"))
            lo, nom, hi = hs[s][h][0][b], hs[s][h][1][b], hs[s][h][2][b]
            env.eq(f"slow=formula[{s},{h},{k},{b}]", rs[s, h, k, b], _orc(env, code, al[s][k], lo, nom, hi),
                   key=_cellkey(code, "slow-formula"))

    def history(env):
        tb = env.install_backend()
        widths = na
        hs = _histosets(env, code, ns, nh, nb)
        inst = _mk(code, hs)
        last = None
        for step, w in enumerate(widths):
            al = [[env.sym(f"a{step}_{s}_{k}") for k in range(w)] for s in range(ns)]
            last = (al, inst(tb.astensor(al)), w)
        al, got, w = last
        fresh_inst = _mk(code, hs)
        want = fresh_inst(tb.astensor(al))
        if tuple(np.shape(got)) != (ns, nh, w, nb):
            env.fail("history:shape", f"{np.shape(got)}", key=_cellkey(code, "history"))
            return
        for s, h, k, b in itertools.product(range(ns), range(nh), range(w), range(nb)):
            env.eq(f"history{widths}[{s},{h},{k},{b}]", got[s, h, k, b], want[s, h, k, b], key=_cellkey(code, "history"))
            lo, nom, hi = hs[s][h][0][b], hs[s][h][1][b], hs[s][h][2][b]
            env.eq(f"history-formula{widths}[{s},{h},{k},{b}]", got[s, h, k, b],
                   _orc(env, code, al[s][k], lo, nom, hi), key=_cellkey(code, "history-formula"))

    return {"formula": formula, "calculus": calculus, "slow": slow, "history": history}[kind]


def _slopes(env, code, lo, nom, hi):
    N = env.num
    lo, nom, hi = N(lo), N(nom), N(hi)
    if code in ("code0", "code4p"):
        return hi - nom, nom - lo
    if code == "code2":
        A = N(F(1, 2)) * (hi + lo) - nom
        B = N(F(1, 2)) * (hi - lo)
        return B + 2 * A, B - 2 * A
    raise KeyError(code)


def _tol(env, label, value, tol, key):
    ob = env.holds(label, abs(value) <= tol, key=key)
    ob.impl, ob.delta = value, abs(value)

"""Environment stubs with documented contracts (DESIGN.md 2.3).  Installed from the harness side by
assignment to module attributes; every installation checks that the attribute existed."""
from __future__ import annotations

import contextlib
import importlib

import numpy as np

import pyhf

from .harness import HarnessError


@contextlib.contextmanager
def patched(*triples):
    """patched((module_name, attr, value), ...) - restores on exit; missing attribute = harness error"""
    saved = []
    try:
        for modname, attr, val in triples:
            mod = importlib.import_module(modname) if isinstance(modname, str) else modname
            if not hasattr(mod, attr):
                raise HarnessError(f"stub target {modname}.{attr} does not exist any more")
            saved.append((mod, attr, getattr(mod, attr)))
            setattr(mod, attr, val)
        yield
    finally:
        for mod, attr, old in reversed(saved):
            setattr(mod, attr, old)


class FitStubs:
    """fit / fixed_poi_fit return arbitrary symbolic points and objective values.

    Contract: the fixed-POI fit returns the POI at the requested value; every returned component
    lies within the bounds the fit was given (assumed only for the POI, the only component the
    callers compare); nothing else.  Honesty of the objective value is C05's subject, so the two
    values are free symbols here."""

    def __init__(self, env, prefix="fit"):
        self.env = env
        self.calls = []
        self.prefix = prefix

    def _mk(self, kind, poi_val, data, pdf, init_pars, par_bounds, fixed_params, return_fitted_val, kw):
        env = self.env
        tb = pyhf.tensorlib
        k = len(self.calls)
        n = pdf.config.npars
        pi = pdf.config.poi_index
        pars = [env.sym(f"{self.prefix}{k}_p{i}") for i in range(n)]
        v = env.sym(f"{self.prefix}{k}_v")
        bounds = par_bounds or pdf.config.suggested_bounds()
        if kind == "fixed":
            pars[pi] = poi_val
        elif pi is not None:
            env.assume(env.num(pars[pi]) >= env.num(bounds[pi][0]))
            env.assume(env.num(pars[pi]) <= env.num(bounds[pi][1]))
        self.calls.append(dict(kind=kind, poi_val=poi_val, data=data, pdf=pdf, init=init_pars, bounds=par_bounds,
                               fixed=fixed_params, kw=kw, pars=pars, v=v, return_fitted_val=return_fitted_val))
        res = tb.astensor(pars)
        if return_fitted_val:
            return res, tb.astensor(v)
        return res

    def fit(self, data, pdf, init_pars=None, par_bounds=None, fixed_params=None, return_fitted_val=False, **kw):
        return self._mk("free", None, data, pdf, init_pars, par_bounds, fixed_params, return_fitted_val, kw)

    def fixed_poi_fit(self, poi_val, data, pdf, init_pars=None, par_bounds=None, fixed_params=None,
                      return_fitted_val=False, **kw):
        return self._mk("fixed", poi_val, data, pdf, init_pars, par_bounds, fixed_params, return_fitted_val, kw)

    def install(self):
        return patched(("pyhf.infer.test_statistics", "fit", self.fit),
                       ("pyhf.infer.test_statistics", "fixed_poi_fit", self.fixed_poi_fit),
                       ("pyhf.infer.calculators", "fixed_poi_fit", self.fixed_poi_fit))

"""Environment stubs with documented contracts (DESIGN.md 2.3).  Installed from the harness side by
assignment to module attributes; every installation checks that the attribute existed."""
from __future__ import annotations

import contextlib
import importlib

import numpy as np

import pyhf

from .harness import HarnessError


@contextlib.contextmanager
def patched(*triples):
    """patched((module_name, attr, value), ...) - restores on exit; missing attribute = harness error"""
    saved = []
    try:
        for modname, attr, val in triples:
            mod = importlib.import_module(modname) if isinstance(modname, str) else modname
            if not hasattr(mod, attr):
                raise HarnessError(f"stub target {modname}.{attr} does not exist any more")
            saved.append((mod, attr, getattr(mod, attr)))
            setattr(mod, attr, val)
        yield
    finally:
        for mod, attr, old in reversed(saved):
            setattr(mod, attr, old)


class FitStubs:
    """fit / fixed_poi_fit return arbitrary symbolic points and objective values.

    Contract: the fixed-POI fit returns the POI at the requested value; every returned component
    lies within the bounds the fit was given (assumed only for the POI, the only component the
    callers compare); nothing else.  Honesty of the objective value is C05's subject, so the two
    values are free symbols here."""

    def __init__(self, env, prefix="fit"):
        self.env = env
        self.calls = []
        self.prefix = prefix

    def _mk(self, kind, poi_val, data, pdf, init_pars, par_bounds, fixed_params, return_fitted_val, kw):
        env = self.env
        tb = pyhf.tensorlib
        k = len(self.calls)
        n = pdf.config.npars
        pi = pdf.config.poi_index
        pars = [env.sym(f"{self.prefix}{k}_p{i}") for i in range(n)]
        v = env.sym(f"{self.prefix}{k}_v")
        bounds = par_bounds or pdf.config.suggested_bounds()
        if kind == "fixed":
            pars[pi] = poi_val
        elif pi is not None:
            env.assume(env.num(pars[pi]) >= env.num(bounds[pi][0]))
            env.assume(env.num(pars[pi]) <= env.num(bounds[pi][1]))
        self.calls.append(dict(kind=kind, poi_val=poi_val, data=data, pdf=pdf, init=init_pars, bounds=par_bounds,
                               fixed=fixed_params, kw=kw, pars=pars, v=v, return_fitted_val=return_fitted_val))
        res = tb.astensor(pars)
        if return_fitted_val:
            return res, tb.astensor(v)
        return res

    def fit(self, data, pdf, init_pars=None, par_bounds=None, fixed_params=None, return_fitted_val=False, **kw):
        return self._mk("free", None, data, pdf, init_pars, par_bounds, fixed_params, return_fitted_val, kw)

    def fixed_poi_fit(self, poi_val, data, pdf, init_pars=None, par_bounds=None, fixed_params=None,
                      return_fitted_val=False, **kw):
        return self._mk("fixed", poi_val, data, pdf, init_pars, par_bounds, fixed_params, return_fitted_val, kw)

    def install(self):
        return patched(("pyhf.infer.test_statistics", "fit", self.fit),
                       ("pyhf.infer.test_statistics", "fixed_poi_fit", self.fixed_poi_fit),
                       ("pyhf.infer.calculators", "fixed_poi_fit", self.fixed_poi_fit))


class MinimizeStub:
    """stands in for scipy.optimize.minimize (SLSQP): returns an arbitrary point that satisfies the
    bounds and equality constraints *it was passed*, with fun = func(x) (the objective it was handed,
    evaluated for real) - nothing about optimality."""

    def __init__(self, env, success=True, prefix="opt"):
        self.env, self.success, self.prefix, self.calls = env, success, prefix, []

    def __call__(self, func, x0, method=None, jac=None, bounds=None, constraints=(), tol=None, options=None, **kw):
        import scipy.optimize
        env = self.env
        tb = pyhf.tensorlib
        k = len(self.calls)
        n = len(x0)
        xs = [env.sym(f"{self.prefix}{k}_x{i}") for i in range(n)]
        if bounds is not None:
            for i, b in enumerate(bounds):
                if b is None:
                    continue
                lo, hi = b
                if lo is not None:
                    env.assume(env.num(xs[i]) >= env.num(lo))
                if hi is not None:
                    env.assume(env.num(xs[i]) <= env.num(hi))
        xarr = tb.astensor(xs) if n else tb.astensor([])
        for c in constraints or ():
            vals = c["fun"](xarr)
            for v in np.asarray(vals, dtype=object).ravel():
                env.assume(env.num(v) == 0)
        fun = func(xarr)
        # which components do the equality constraints it was handed actually pin?  (probe: a component is
        # constrained iff moving it alone changes some constraint function)
        pinned = set()
        if n:
            base = [float(i + 2) for i in range(n)]
            for c in constraints or ():
                f0 = np.asarray(c["fun"](np.asarray(base, dtype=object)), dtype=object).ravel()
                for i in range(n):
                    v = list(base)
                    v[i] = v[i] + 1.0
                    f1 = np.asarray(c["fun"](np.asarray(v, dtype=object)), dtype=object).ravel()
                    for a, b in zip(f0, f1):
                        d = env.num(b) - env.num(a)
                        dz = d.v if hasattr(d, "v") else d
                        try:
                            import z3 as _z3
                            if isinstance(dz, _z3.ExprRef):
                                dz = _z3.simplify(dz)
                                nz = not (_z3.is_rational_value(dz) and dz.numerator_as_long() == 0)
                            else:
                                nz = float(dz) != 0.0
                        except Exception:  # noqa: BLE001
                            nz = True
                        if nz:
                            pinned.add(i)
        self.calls.append(dict(x0=list(x0), bounds=bounds, constraints=constraints, method=method, jac=jac, tol=tol,
                               options=options, xs=xs, fun=fun, pinned=sorted(pinned)))
        return scipy.optimize.OptimizeResult(x=xarr, fun=fun, success=self.success, message="stub", nfev=1, njev=0)


class FakeMinuit:
    """stands in for iminuit.Minuit: values within limits, fixed components stay at their start
    values, fval = fcn(values), symbolic errors and a symbolic symmetric correlation matrix"""

    instances = []
    env = None
    valid_flag = True

    def __init__(self, fcn, start, grad=None, name=None):
        self.fcn, self.start, self.grad, self.name = fcn, list(start), grad, name
        self.limits = None
        self.fixed = [False] * len(self.start)
        self.print_level = 0
        self.errordef = 1
        self.strategy = None
        self.tol = None
        self.valid = False
        self.values = None
        self.fval = None
        self.errors = None
        self.covariance = None
        self.nfcn = 0
        self.ngrad = 0
        self.hesse_called = False
        self.k = len(FakeMinuit.instances)
        FakeMinuit.instances.append(self)

    def migrad(self, ncall=None):
        env = FakeMinuit.env
        tb = pyhf.tensorlib
        vals = []
        for i, s in enumerate(self.start):
            if self.fixed[i]:
                vals.append(s)
                continue
            v = env.sym(f"mn{self.k}_x{i}")
            if self.limits is not None and self.limits[i] is not None:
                lo, hi = self.limits[i]
                if lo is not None:
                    env.assume(env.num(v) >= env.num(lo))
                if hi is not None:
                    env.assume(env.num(v) <= env.num(hi))
            vals.append(v)
        self.values = tb.astensor(vals) if vals else tb.astensor([])
        self.fval = self.fcn(self.values)
        self.valid = FakeMinuit.valid_flag
        self.nfcn = 1
        self.fmin = type("FMin", (), {"has_reached_call_limit": False, "is_above_max_edm": not self.valid})()
        return self

    def hesse(self):
        env = FakeMinuit.env
        n = len(self.start)
        self.hesse_called = True
        self.errors = [env.sym(f"mn{self.k}_e{i}", nonneg=True) for i in range(n)]
        corr = [[None] * n for _ in range(n)]
        for i in range(n):
            for j in range(i, n):
                corr[i][j] = corr[j][i] = (1.0 if i == j else env.sym(f"mn{self.k}_c{i}_{j}"))
        self._corr = corr

        class _Cov:
            def correlation(cov):
                return self._corr
        self.covariance = _Cov()
        return self

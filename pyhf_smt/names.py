"""N-engine: symbolic names by eager equality-pattern resolution (DESIGN.md 2.2).

A symbolic name is decided, at creation, to be (i) one of the literals the code under test can
mention (pool rebuilt from the AST of the current source), (ii) one of the earlier symbolic names,
or (iii) fresh - by forking, so that every equality pattern is its own explored path and every
object handed to the real code is an ordinary str with a real hash and buffer."""
from __future__ import annotations

import ast
import importlib
import re

IDENT = re.compile(r"^[a-zA-Z0-9_]+$")


class FreshName(str):
    """a name different from every literal in the pool and every other name in play"""


def literal_pool(module_names, extra=()):
    """string constants in subscript / dict-key / comparison / .get/.pop/.setdefault/getattr positions"""
    pool = set(extra)
    for mn in module_names:
        mod = importlib.import_module(mn)
        with open(mod.__file__) as f:
            tree = ast.parse(f.read())
        for node in ast.walk(tree):
            cands = []
            if isinstance(node, ast.Subscript):
                cands.append(node.slice)
            elif isinstance(node, ast.Dict):
                cands.extend(k for k in node.keys if k is not None)
            elif isinstance(node, ast.Compare):
                cands.append(node.left)
                cands.extend(node.comparators)
            elif isinstance(node, ast.Call):
                fn = node.func
                if isinstance(fn, ast.Attribute) and fn.attr in ("get", "pop", "setdefault", "index", "append") or isinstance(fn, ast.Name) and fn.id in ("getattr", "hasattr", "dict"):
                    cands.extend(node.args)
                cands.extend(kw.value for kw in node.keywords)
                if isinstance(fn, ast.Name) and fn.id == "dict":
                    pool.update(kw.arg for kw in node.keywords if kw.arg)
            for c in cands:
                for sub in ast.walk(c):
                    if isinstance(sub, ast.Constant) and isinstance(sub.value, str) and IDENT.match(sub.value) and len(sub.value) <= 24:
                        pool.add(sub.value)
    return sorted(pool)


def symname(env, label, pool, earlier=()):
    cands = list(pool) + [e for e in earlier if e not in pool]
    i = env.choice(label, len(cands) + 1)
    if i < len(cands):
        return cands[i]
    return FreshName(f"zqFresh{label}")

"""Symbolic tensor backend: subclasses the real pyhf numpy backend, tensors hold solver terms.

Only what cannot work on object arrays is overridden (DESIGN.md 2.1, Appendix B); index
bookkeeping (tile/reshape/concatenate/stack/gather/transpose/argsort/boolean masking) is
executed by real numpy.
"""
from __future__ import annotations

import numbers

import numpy as np
import z3

from pyhf.tensor.numpy_backend import numpy_backend

from .sym import (CTX, SB, SV, XR, SymArray, Unsupported, ite, sb, symarr, uf_apply, zexpr, _vite, _vsb)

numbers.Number.register(SV)

_PROV = {"enabled": False, "violations": [], "current": None, "track_index": False}


def _uf_elem(name):
    def f(*args):
        return uf_apply(name, *args)
    return f


class TagArr(np.ndarray):
    """native int / bool tensor of a symbolic backend instance: carries the provenance tag"""
    tag = None

    def __array_finalize__(self, obj):
        if obj is not None:
            self.tag = getattr(obj, "tag", None)


def _tagged(a, tag):
    if _PROV["track_index"] and isinstance(a, np.ndarray) and a.dtype.kind in "iub":
        a = a.view(TagArr)
        a.tag = tag
    return a


def _stamp(a, tag):
    if isinstance(a, SymArray):
        if getattr(a, "tag", None) not in (None, tag):
            a = a.view(SymArray)
        a.tag = tag
    return a


class _SymDist:
    def _bk(self):
        return self._backend


class _SymPoisson(_SymDist):
    def __init__(self, backend, rate):
        self._backend = backend
        self.rate = rate

    def log_prob(self, value):
        return self._backend.poisson_logpdf(value, self.rate)

    def expected_data(self):
        return self.rate

    def sample(self, sample_shape=()):
        return self._backend._sample("poisson", sample_shape, (self.rate,))


class _SymNormal(_SymDist):
    def __init__(self, backend, loc, scale):
        self._backend = backend
        self.loc, self.scale = loc, scale

    def log_prob(self, value):
        return self._backend.normal_logpdf(value, self.loc, self.scale)

    def expected_data(self):
        return self.loc

    def sample(self, sample_shape=()):
        return self._backend._sample("normal", sample_shape, (self.loc, self.scale))


class sym_backend(numpy_backend):
    """numpy backend over object arrays of solver terms"""

    __slots__ = ["tag", "samples", "opcount"]
    array_type = np.ndarray
    array_subtype = numbers.Number

    def __init__(self, tag="A", **kw):
        super().__init__(**kw)
        self.name = "numpy"
        self.precision = f"sym:{tag}"
        self.tag = tag
        self.samples = []
        self.opcount = 0
        self.dtypemap = {"float": np.float64, "int": np.int64, "bool": np.bool_}

    # ---- provenance (C11) --------------------------------------------------------------------
    def _in(self, *arrs):
        self.opcount += 1
        if _PROV["enabled"]:
            for a in arrs:
                t = getattr(a, "tag", None)
                if isinstance(a, np.ndarray) and not isinstance(a, SymArray) and a.dtype.kind == "f" and a.size:
                    _PROV["violations"].append(("foreign-float-array", self.tag, str(a.dtype)))
                elif _PROV["track_index"] and isinstance(a, np.ndarray) and a.dtype.kind in "iub" and a.size and not isinstance(a, TagArr):
                    _PROV["violations"].append(("foreign-index-array", self.tag, str(a.dtype)))
                elif t is not None and t != self.tag:
                    _PROV["violations"].append(("foreign-tag", self.tag, str(t)))
                elif not isinstance(a, (np.ndarray, list, tuple, SV, SB, numbers.Number, type(None), range)):
                    _PROV["violations"].append(("foreign-type", self.tag, type(a).__name__))

    def _out(self, a):
        if isinstance(a, np.ndarray) and a.dtype == object and not isinstance(a, SymArray):
            a = a.view(SymArray)
        if isinstance(a, np.ndarray) and a.dtype.kind in "iub":
            return _tagged(a, self.tag)
        return _stamp(a, self.tag)

    # ---- construction -------------------------------------------------------------------------
    def astensor(self, tensor_in, dtype="float"):
        self.opcount += 1      # conversion point: foreign tensors are legitimate here
        if dtype not in self.dtypemap:
            raise KeyError(dtype)
        if dtype == "int":
            a = np.asarray(tensor_in)
            if a.dtype == object:
                flat = [int(e) for e in a.ravel()]
                return _tagged(np.asarray(flat, dtype=np.int64).reshape(a.shape), self.tag)
            return _tagged(a.astype(np.int64), self.tag)
        if dtype == "bool":
            a = np.asarray(tensor_in)
            if a.dtype == object:
                r = np.asarray(_vsb(a), dtype=object) if a.size else a
                if all(isinstance(e.b, bool) for e in r.ravel()):
                    return _tagged(np.asarray([e.b for e in r.ravel()], dtype=bool).reshape(r.shape), self.tag)
                return self._out(np.asarray(r, dtype=object).view(SymArray))
            return _tagged(a.astype(bool), self.tag)
        if isinstance(tensor_in, range):
            tensor_in = list(tensor_in)
        r = symarr(tensor_in).view(SymArray)
        r.tag = self.tag
        return r

    def ones(self, shape, dtype="float"):
        if dtype == "int":
            return np.ones(shape, dtype=np.int64)
        if dtype == "bool":
            return np.ones(shape, dtype=bool)
        return self._out(symarr(np.ones(_shape(shape))))

    def zeros(self, shape, dtype="float"):
        if dtype == "int":
            return np.zeros(shape, dtype=np.int64)
        if dtype == "bool":
            return np.zeros(shape, dtype=bool)
        return self._out(symarr(np.zeros(_shape(shape))))

    # ---- selection ----------------------------------------------------------------------------
    def where(self, mask, a, b):
        self._in(mask, a, b)
        mask = np.asarray(mask)
        a = symarr(a).view(np.ndarray)
        b = symarr(b).view(np.ndarray)
        if mask.dtype != object:
            return self._out(np.where(mask.astype(bool), a, b).view(SymArray))
        r = _vite(mask.view(np.ndarray), a, b)
        return self._out(symarr(r))

    def clip(self, tensor_in, min_value, max_value):
        self._in(tensor_in)
        r = symarr(tensor_in)
        if min_value is not None:
            r = self.where(r < min_value, symarr(np.broadcast_to(symarr(min_value), r.shape)), r)
        if max_value is not None:
            r = self.where(r > max_value, symarr(np.broadcast_to(symarr(max_value), r.shape)), r)
        return self._out(r)

    def conditional(self, predicate, true_callable, false_callable):
        p = predicate
        if isinstance(p, np.ndarray):
            p = p.reshape(()).item() if p.size == 1 else p
        p = sb(p)
        if isinstance(p.b, bool):
            return true_callable() if p.b else false_callable()
        t, f = true_callable(), false_callable()
        m = np.empty((), dtype=object)
        m[()] = p
        tt, ff = symarr(t), symarr(f)
        shape = np.broadcast_shapes(tt.shape, ff.shape)
        r = _vite(np.broadcast_to(m, shape), np.broadcast_to(tt.view(np.ndarray), shape), np.broadcast_to(ff.view(np.ndarray), shape))
        return self._out(symarr(r))

    def tolist(self, t):
        def force(x):
            if isinstance(x, list):
                return [force(y) for y in x]
            if isinstance(x, SB):
                return bool(x)
            return x
        try:
            return force(t.tolist())
        except AttributeError:
            if isinstance(t, list):
                return t
            if isinstance(t, (SV, SB)):
                return t
            raise

    def gather(self, tensor, indices):
        self._in(tensor, indices)
        return self._out(tensor[indices])

    def boolean_mask(self, tensor, mask):
        self._in(tensor)
        mask = np.asarray(mask)
        if mask.dtype == object:
            mask = np.asarray([bool(e) for e in mask.ravel()], dtype=bool).reshape(mask.shape)
        return self._out(tensor[mask])

    def isfinite(self, tensor):
        a = symarr(tensor)
        return np.asarray([not isinstance(e.v, XR) for e in a.ravel()], dtype=bool).reshape(a.shape)

    # ---- arithmetic ---------------------------------------------------------------------------
    def power(self, a, b):
        self._in(a, b)
        return self._out(symarr(np.power(symarr(a), symarr(b))))

    def sqrt(self, a):
        self._in(a)
        return self._out(symarr(np.sqrt(symarr(a))))

    def log(self, a):
        self._in(a)
        return self._out(symarr(np.log(symarr(a))))

    def exp(self, a):
        self._in(a)
        return self._out(symarr(np.exp(symarr(a))))

    def abs(self, a):
        self._in(a)
        return self._out(symarr(np.abs(symarr(a))))

    def divide(self, a, b):
        self._in(a, b)
        return self._out(symarr(np.divide(symarr(a), symarr(b))))

    def outer(self, a, b):
        self._in(a, b)
        return self._out(symarr(np.outer(symarr(a), symarr(b))))

    def einsum(self, subscripts, *operands):
        self._in(*operands)
        ops = [symarr(o).view(np.ndarray) for o in operands]
        r = np.einsum(subscripts, *ops)
        return self._out(symarr(r))

    def sum(self, t, axis=None):
        self._in(t)
        if isinstance(t, (list, tuple)):
            t = [symarr(x).view(np.ndarray) for x in t] if t and isinstance(t[0], np.ndarray) else t
        r = np.sum(symarr(t).view(np.ndarray), axis=axis)
        return self._out(symarr(r))

    def product(self, t, axis=None):
        self._in(t)
        r = np.prod(symarr(t).view(np.ndarray), axis=axis)
        return self._out(symarr(r))

    def stack(self, sequence, axis=0):
        self._in(*sequence)
        return self._out(symarr(np.stack([symarr(s).view(np.ndarray) for s in sequence], axis=axis)))

    def concatenate(self, sequence, axis=0):
        self._in(*sequence)
        seq = list(sequence)
        if all(isinstance(s, np.ndarray) and s.dtype != object for s in seq) or not any(
            _has_sym(s) for s in seq
        ):
            r = np.concatenate(seq, axis=axis)
            if r.dtype == object:
                return self._out(symarr(r))
            if r.dtype.kind == "f":
                return self._out(symarr(r))
            return r
        return self._out(symarr(np.concatenate([symarr(s).view(np.ndarray) for s in seq], axis=axis)))

    def tile(self, tensor_in, repeats):
        self._in(tensor_in)
        r = np.tile(tensor_in, repeats)
        return self._out(r.view(SymArray) if r.dtype == object else r)

    def reshape(self, tensor, newshape):
        self._in(tensor)
        if isinstance(tensor, (SV, SB)):
            tensor = symarr(tensor)
        r = np.reshape(tensor, newshape)
        return self._out(r.view(SymArray) if r.dtype == object else r)

    def ravel(self, tensor):
        return self._out(np.ravel(tensor))

    def transpose(self, tensor_in):
        return self._out(np.transpose(tensor_in))

    def simple_broadcast(self, *args):
        return [self._out(symarr(a)) for a in np.broadcast_arrays(*[symarr(a).view(np.ndarray) for a in args])]

    def shape(self, tensor):
        if isinstance(tensor, (SV, SB)):
            return ()
        return np.shape(tensor)

    def to_numpy(self, tensor_in):
        return tensor_in

    def percentile(self, tensor_in, q, axis=None, interpolation="linear"):
        """linear-interpolation percentile (flattened, or along axis 0); sorting forks"""
        if interpolation != "linear" or axis not in (None, 0):
            raise Unsupported("percentile axis/interpolation")
        t = symarr(tensor_in)
        qs = symarr(q)
        if axis is None or t.ndim == 1:
            cols = [list(t.ravel().view(np.ndarray))]
            rest = ()
        else:
            rest = t.shape[1:]
            flat = t.reshape(t.shape[0], -1).view(np.ndarray)
            cols = [list(flat[:, j]) for j in range(flat.shape[1])]
        out = np.empty((qs.size, len(cols)), dtype=object)
        for j, col in enumerate(cols):
            a = _fork_sort(col)
            n = len(a)
            for i, qq in enumerate(qs.ravel().view(np.ndarray)):
                pos = SV(qq) / 100 * (n - 1)
                if not pos.concrete:
                    raise Unsupported("symbolic percentile rank")
                k = int(pos.v // 1)
                frac = pos.v - k
                lo, hi = a[k], a[min(k + 1, n - 1)]
                out[i, j] = lo + (hi - lo) * frac
        r = out.reshape(tuple(qs.shape) + tuple(rest)) if rest or qs.shape else out.reshape(())
        return self._out(symarr(r))

    # ---- probability --------------------------------------------------------------------------
    def poisson_logpdf(self, n, lam):
        self._in(n, lam)
        return self._out(symarr(np.frompyfunc(_uf_elem("poisson_logpdf"), 2, 1)(
            symarr(n).view(np.ndarray), symarr(lam).view(np.ndarray))))

    def poisson(self, n, lam):
        return self.exp(self.poisson_logpdf(n, lam))

    def normal_logpdf(self, x, mu, sigma):
        self._in(x, mu, sigma)
        return self._out(symarr(np.frompyfunc(_uf_elem("normal_logpdf"), 3, 1)(
            symarr(x).view(np.ndarray), symarr(mu).view(np.ndarray), symarr(sigma).view(np.ndarray))))

    def normal(self, x, mu, sigma):
        return self.exp(self.normal_logpdf(x, mu, sigma))

    def normal_cdf(self, x, mu=0.0, sigma=1):
        self._in(x)
        z = (symarr(x) - mu) / sigma
        return self._out(symarr(np.frompyfunc(_phi, 1, 1)(np.asarray(z).view(np.ndarray))))

    def erf(self, tensor_in):
        return self._out(symarr(np.frompyfunc(_uf_elem("erf"), 1, 1)(symarr(tensor_in).view(np.ndarray))))

    def erfinv(self, tensor_in):
        return self._out(symarr(np.frompyfunc(_uf_elem("erfinv"), 1, 1)(symarr(tensor_in).view(np.ndarray))))

    def poisson_dist(self, rate):
        return _SymPoisson(self, rate)

    def normal_dist(self, mu, sigma):
        return _SymNormal(self, mu, sigma)

    def _sample(self, kind, sample_shape, params):
        shape = tuple(sample_shape) + tuple(np.shape(params[0]))
        k = len(self.samples)
        out = np.empty(shape, dtype=object)
        for idx in np.ndindex(*shape):
            out[idx] = CTX.fresh(f"draw{k}_{kind}_" + "_".join(map(str, idx)))
        out = self._out(out.view(SymArray))
        self.samples.append({"kind": kind, "shape": shape, "sample_shape": tuple(sample_shape),
                             "params": params, "out": out})
        return out


def _phi(x):
    x = SV(x)
    if x.concrete and isinstance(x.v, XR):
        f = float(x.v)
        if f != f:
            return SV(XR(f))
        return SV(1 if f > 0 else 0)
    if x.concrete and x.v == 0:
        from fractions import Fraction
        return SV(Fraction(1, 2))
    return uf_apply("Phi", x)


def _shape(shape):
    if isinstance(shape, (int, np.integer)):
        return (int(shape),)
    return tuple(int(s) for s in shape)


def _has_sym(s):
    if isinstance(s, np.ndarray):
        return s.dtype == object
    if isinstance(s, (SV, SB)):
        return True
    if isinstance(s, (list, tuple)):
        return any(_has_sym(x) for x in s)
    return False


def _ragged_guard(x):
    return x


def _fork_sort(vals):
    """insertion sort driven by symbolic comparisons (forks on undecided orderings)"""
    out = []
    for v in vals:
        i = len(out)
        while i > 0 and bool(out[i - 1] > v):
            i -= 1
        out.insert(i, v)
    return out


def prov_enable(flag=True, track_index=None):
    _PROV["enabled"] = flag
    _PROV["violations"] = []
    if track_index is not None:
        _PROV["track_index"] = track_index


def prov_violations():
    return list(_PROV["violations"])

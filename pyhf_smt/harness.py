"""Mode-polymorphic harness environment, obligation collection, path runner, replay, twins,
encoding validation (DESIGN.md 2.1.4 - 2.1.6).

A harness is a function  h(env)  that drives real pyhf entry points and states obligations with
env.eq / env.holds / env.fail.  The same function runs
  * symbolically (env.mode == 'sym'): symbols are z3 reals, pyhf runs on the symbolic backend,
    obligations become solver queries decided for all values;
  * concretely (env.mode == 'conc'): symbols are the floats of a solver model (or of a random
    validation point), pyhf runs on its stock numpy backend, oracles are evaluated with mpmath.
"""
from __future__ import annotations

import os
import gc
import hashlib
import random
import sys
import time
import traceback
from fractions import Fraction

import mpmath
import numpy as np
import z3

import pyhf

from . import decide, sym
from .backend import sym_backend
from .conc import CV
from .sym import CTX, SB, SV, Infeasible, PathBudgetExceeded, Unsupported, WallBudgetExceeded, explore, ite, sb, uf_apply, zexpr

REL_TOL = 1e-9
ABS_TOL = 1e-12


class ReplayInvalid(Exception):
    """the concrete values do not satisfy a stub contract / assumption: not a valid replay"""


class HarnessError(Exception):
    pass


def reset_pyhf(backend, optimizer=None):
    """drop every subscribed callback (objects of earlier work items) and install a backend"""
    gc.collect()
    ev = pyhf.events.__dict__["__events"]
    for name in ("tensorlib_changed", "optimizer_changed"):
        if name in ev:
            ev[name]._callbacks = []
    pyhf.set_backend(backend, custom_optimizer=optimizer, default=True)


def _percentile_compat():
    """environment repair for concrete replays only: the installed numpy (2.x) no longer accepts
    np.percentile(..., interpolation=...), which pyhf's numpy backend passes; same semantics via method="""
    from pyhf.tensor.numpy_backend import numpy_backend
    try:
        np.percentile([1.0, 2.0], 50, interpolation="linear")
    except TypeError:
        if not getattr(numpy_backend.percentile, "_verif_compat", False):
            def percentile(self, tensor_in, q, axis=None, interpolation="linear"):
                return np.percentile(tensor_in, q, axis=axis, method=interpolation)
            percentile._verif_compat = True
            numpy_backend.percentile = percentile


def _to_float(x):
    if isinstance(x, np.ndarray):
        x = x.reshape(()).item() if x.size == 1 else x
    if isinstance(x, CV):
        return x.v
    if isinstance(x, SV):
        from .conc import _m
        return _m(x)
    if isinstance(x, Fraction):
        return mpmath.mpf(x.numerator) / mpmath.mpf(x.denominator)
    return mpmath.mpf(float(x))


# development aid only: evaluate a scratch checkout instead of /repo (never set by the registered commands)
PYHF_SRC = os.environ.get("VERIF_PYHF_SRC", "/repo/src").rstrip("/")


class Obligation:
    __slots__ = ("label", "kind", "goal", "impl", "oracle", "key", "msg", "value_ok", "delta", "validate", "replay_label")

    def __init__(self, label, kind, goal=None, impl=None, oracle=None, key=None, msg=""):
        self.label, self.kind, self.goal, self.impl, self.oracle, self.key, self.msg = (
            label, kind, goal, impl, oracle, key or label, msg)
        self.value_ok = None
        self.delta = None
        self.validate = True
        self.replay_label = None


class Env:
    def __init__(self, mode, values=None, twin_label=None, tier="quick", seed=0, params=None):
        self.mode = mode
        self.values = values or {}
        self.twin_label = twin_label
        self.tier = tier
        self.seed = seed
        self.params = params or {}
        self.obligations = []
        self.notes = []
        self.backend = None
        self._labels = set()
        self.sym_only = False      # obligations stated while True exist only in symbolic mode (no twin/validation)
        self.replay_as = None      # label of the concrete-mode obligation that replays the ones stated while set

    # ---- symbols ------------------------------------------------------------------------------
    def sym(self, name, positive=False, nonneg=False, lo=None, hi=None):
        if self.mode == "sym":
            return sym.fresh(name, positive=positive, nonneg=nonneg, lo=lo, hi=hi)
        if name not in self.values:
            raise ReplayInvalid(f"no value for symbol {name}")
        v = self.values[name]
        f = float(v)
        if positive and not f > 0 or nonneg and not f >= 0 or lo is not None and f < float(lo) or hi is not None and f > float(hi):
            raise ReplayInvalid(f"{name}={f} violates its declared range")
        return f

    def choice(self, label, n):
        """symbolic index in range(n): every value is explored as its own path (forking); in concrete
        mode the index recorded in the counterexample is taken"""
        if n <= 1:
            return 0
        s = self.sym(f"choice_{label}")
        if self.mode == "sym":
            for i in range(n - 1):
                if bool(SV(s) == i):
                    return i
            return n - 1
        for i in range(n - 1):
            if float(s) == i:
                return i
        return n - 1

    def syms(self, prefix, n, **kw):
        return [self.sym(f"{prefix}{i}", **kw) for i in range(n)]

    def assume(self, cond, check=True):
        if self.mode == "sym":
            CTX.assume(sb(cond), check=check)
        else:
            if not bool(cond):
                raise ReplayInvalid("assumption false at the replay point")

    # ---- oracle scalars -----------------------------------------------------------------------
    def num(self, x):
        """lift a spec/parameter value or constant to an oracle scalar"""
        if self.mode == "sym":
            return SV(x)
        return x if isinstance(x, CV) else CV(x)

    def raw(self, x):
        """oracle scalar -> value that can be put into a spec / tensor (SV term, or float when concrete)"""
        if self.mode == "sym":
            return SV(x)
        return float(x.v) if isinstance(x, CV) else float(x)

    def uf(self, name, *args):
        if self.mode == "sym":
            return uf_apply(name, *[SV(a) for a in args])
        return CV(decide.UF_INTERP[name](*[_to_float(a) for a in args]))

    def ite(self, c, a, b):
        if self.mode == "sym":
            return ite(c, a, b)
        return a if bool(c) else b

    # ---- backend ------------------------------------------------------------------------------
    def install_backend(self, tag="A", optimizer=None):
        if self.mode == "sym":
            self.backend = sym_backend(tag)
            reset_pyhf(self.backend, optimizer)
        else:
            reset_pyhf("numpy", optimizer)
            self.backend = pyhf.tensorlib
            _percentile_compat()
        return self.backend

    # ---- obligations --------------------------------------------------------------------------
    def _label(self, label):
        base, k = label, 1
        while label in self._labels:
            k += 1
            label = f"{base}#{k}"
        self._labels.add(label)
        return label

    def eq(self, label, impl, oracle, key=None, validate=True):
        label = self._label(label)
        if self.mode == "sym":
            i, o = SV(impl), SV(oracle)
            if label == self.twin_label:
                o = o + 1
            if isinstance(i.v, sym.XR) or isinstance(o.v, sym.XR):
                same = i.concrete and o.concrete and (float(i.v) == float(o.v) or (float(i.v) != float(i.v) and float(o.v) != float(o.v)))
                ob = Obligation(label, "eq", goal=z3.BoolVal(bool(same)), impl=None, oracle=None, key=key)
            else:
                ob = Obligation(label, "eq", goal=zexpr(i) == zexpr(o), impl=zexpr(i), oracle=zexpr(o), key=key)
        else:
            i, o = _to_float(impl), _to_float(oracle)
            if label == self.twin_label:
                o = o + 1
            ob = Obligation(label, "eq", impl=i, oracle=o, key=key)
            if mpmath.isnan(i) or mpmath.isnan(o):
                ob.value_ok = bool(mpmath.isnan(i) and mpmath.isnan(o))
                ob.delta = float("nan")
            elif mpmath.isinf(i) or mpmath.isinf(o):
                ob.value_ok = bool(i == o)
                ob.delta = float("inf")
            else:
                ob.delta = abs(i - o)
                ob.value_ok = bool(ob.delta <= REL_TOL * max(abs(o), abs(i), 1) + ABS_TOL)
        ob.validate = validate and not self.sym_only
        ob.replay_label = self.replay_as
        self.obligations.append(ob)
        return ob

    def eq_all(self, label, impls, oracles, key=None):
        impls = list(np.asarray(impls, dtype=object).ravel()) if not isinstance(impls, list) else impls
        oracles = list(oracles)
        if len(impls) != len(oracles):
            self.fail(f"{label}:length", f"{len(impls)} values against {len(oracles)} expected", key=key)
            return
        for k, (i, o) in enumerate(zip(impls, oracles)):
            self.eq(f"{label}[{k}]", i, o, key=key)

    def holds(self, label, cond, key=None):
        label = self._label(label)
        if self.mode == "sym":
            c = sb(cond)
            if label == self.twin_label:
                c = ~c
            ob = Obligation(label, "holds", goal=c.z(), key=key)
        else:
            c = bool(cond)
            if label == self.twin_label:
                c = not c
            ob = Obligation(label, "holds", key=key)
            ob.value_ok = c
        ob.validate = not self.sym_only
        ob.replay_label = self.replay_as
        self.obligations.append(ob)
        return ob

    def fail(self, label, msg, key=None):
        label = self._label(label)
        ob = Obligation(label, "fail", goal=z3.BoolVal(False) if self.mode == "sym" else None, key=key, msg=msg)
        if self.mode != "sym":
            ob.value_ok = False
        ob.validate = not self.sym_only
        ob.replay_label = self.replay_as
        self.obligations.append(ob)
        return ob

    def note(self, text):
        if text not in self.notes:
            self.notes.append(text)


# ------------------------------------------------------------------------------------------------
# running
# ------------------------------------------------------------------------------------------------
class Result:
    """aggregated outcome of one work item (picklable)"""

    def __init__(self, item):
        self.item = item
        self.paths = 0
        self.obligations = 0
        self.discharged = 0
        self.syntactic = 0
        self.cells = 0
        self.queries = 0
        self.solver_time = 0.0
        self.sym_time = 0.0
        self.violations = []     # dicts: label,key,model,reproduced,detail
        self.inconclusive = []   # dicts
        self.samples = []
        self.notes = []
        self.validated = 0
        self.validation_errors = []
        self.twin = None         # None (not run) / True / False
        self.boundary_points = 0
        self.functions = []
        self.nontrivial = 0
        self.labels = []
        self.wall = 0.0
        self.error = None

    def ok(self):
        return not self.violations and not self.inconclusive and not self.validation_errors and self.error is None and self.twin is not False


def conc_run(harness, values, twin_label=None, tier="quick", seed=0, params=None):
    env = Env("conc", values=values, twin_label=twin_label, tier=tier, seed=seed, params=params)
    with np.errstate(all="ignore"):
        try:
            harness(env)
        except (Unsupported, HarnessError, ReplayInvalid, AssertionError, NotImplementedError):
            raise
        except Exception as e:
            tbk = traceback.extract_tb(e.__traceback__)
            if not any(PYHF_SRC + "/pyhf/" in fr.filename for fr in tbk):
                raise
            env.fail("<unexpected-exception>", f"pyhf raised {type(e).__name__}: {str(e)[:200]}", key=f"unexpected-exception:{type(e).__name__}")
    return env


def _model_str(model):
    return {k: str(v) for k, v in model.items()}


def _random_point(rng, hyps, symbols, positive_only=False):
    """a model of hyps with as many symbols as possible pinned to random dyadic values"""
    s = z3.Solver()
    s.set("timeout", 3000)
    for h in hyps:
        s.add(h)
    if s.check() != z3.sat:
        return None
    names = sorted(symbols)
    rng.shuffle(names)
    for n in names:
        c = symbols[n]
        for _ in range(3):
            v = Fraction(rng.randint(-192, 192), 64) if (rng.random() < 0.5 and not positive_only) else Fraction(rng.randint(16, 256), 64)
            s.push()
            s.add(c == z3.RealVal(f"{v.numerator}/{v.denominator}"))
            if s.check() == z3.sat:
                break
            s.pop()
        # note: successful pins stay pushed
    if s.check() != z3.sat:
        return None
    return decide.extract_model(s.model(), symbols)


EARLY_STOP_S = 120
BOUNDARY_TRIES = 24


class _EnoughEvidence(Exception):
    pass


def run_item(harness, item, *, tier="quick", max_paths=256, timeout_ms=20000, cell_limit=4096,
             twin=False, validate=0, profile=False, seed=0, params=None, max_models=4, wall_s=None, boundary=None):
    """explore all paths of harness(env) symbolically, decide every obligation, replay sat ones"""
    res = Result(item)
    t_start = time.time()
    CTX.reset()
    wall_s = wall_s or (600 if tier == "quick" else 3000)
    CTX.deadline = t_start + wall_s
    decide.reset_stats()
    rng = random.Random(hashlib.sha256(f"{seed}:{item}".encode()).digest())
    pending_replays = []      # (label, key, model, detail, twin_label)
    val_points = []           # (path_hyps, {label: impl term})
    labels_seen = []
    twin_cands = set()
    dup_keys = {}
    n_paths = [0]
    first_hyps = []

    def one_run(twin_label=None, collect=True):
        env = Env("sym", tier=tier, seed=seed, twin_label=twin_label, params=params)
        t0 = time.time()
        try:
            harness(env)
        except (Unsupported, HarnessError, ReplayInvalid, PathBudgetExceeded, AssertionError, NotImplementedError):
            raise
        except Exception as e:  # the real code raised where the harness expected it to work
            tbk = traceback.extract_tb(e.__traceback__)
            where = next((f"{fr.filename.split('/pyhf/')[-1]}:{fr.name}" for fr in reversed(tbk) if PYHF_SRC + "/pyhf/" in fr.filename), "harness")
            if where == "harness":
                raise
            env.fail("<unexpected-exception>", f"pyhf raised {type(e).__name__}: {str(e)[:200]} in {where} on an input the property covers",
                     key=f"unexpected-exception:{type(e).__name__}")
        res.sym_time += time.time() - t0
        out = {"sat": [], "unknown": [], "n": 0}
        impl_terms = {}
        for ob in env.obligations:
            out["n"] += 1
            if collect and sum(1 for pr in pending_replays if pr["key"] == ob.key) >= 2:
                # this key already has two counterexample candidates: the item fails anyway, do not spend
                # solver time on every further path (they are counted, not decided)
                dup_keys[ob.key] = dup_keys.get(ob.key, 0) + 1
                res.obligations += 1
                continue
            v = decide.prove(ob.goal, timeout_ms=timeout_ms, cell_limit=cell_limit)
            if collect:
                res.obligations += 1
                res.cells += v.ncells
                if v.status == "unsat":
                    res.discharged += 1
                    if v.syntactic:
                        res.syntactic += 1
                if ob.impl is not None and not z3.is_rational_value(ob.impl) or (ob.impl is None and not (z3.is_true(ob.goal) or z3.is_false(ob.goal))):
                    res.nontrivial += 1
                if (len(res.samples) < 8 and not v.syntactic) or len(res.samples) < 2 or (len(res.samples) < 5 and not z3.is_true(ob.goal) and ob.impl is not None):
                    res.samples.append({"item": str(item)[:200], "label": ob.label, "kind": ob.kind,
                                        "goal": ob.goal.sexpr()[:300], "verdict": v.status,
                                        "cells": v.ncells, "ms": round(v.ms, 2)})
                labels_seen.append(ob.label)
                if ob.validate:
                    twin_cands.add(ob.label)
            if ob.kind == "eq" and ob.impl is not None and ob.validate:
                impl_terms[ob.label] = ob.impl
            if v.status == "sat":
                out["sat"].append((ob, v))
            elif v.status == "unknown":
                out["unknown"].append((ob, v))
        if collect:
            for n in env.notes:
                if n not in res.notes:
                    res.notes.append(n)
        out["impl_terms"] = impl_terms
        out["hyps"] = list(CTX.assumptions) + list(CTX.path)
        return out

    def run_main():
        out = one_run()
        for ob, v in out["sat"]:
            nk = sum(1 for pr in pending_replays if pr["key"] == ob.key)
            if nk >= 2:      # at most two candidate counterexamples per obligation key and work item
                dup_keys[ob.key] = dup_keys.get(ob.key, 0) + 1
                continue
            pending_replays.append({"replay_label": ob.replay_label or ob.label, "label": ob.label, "key": ob.key, "kind": ob.kind, "model": v.model,
                                    "detail": (ob.msg + " " + v.detail).strip(), "cell": v.cell,
                                    "goal": ob.goal, "hyps": out["hyps"]})
        for ob, v in out["unknown"]:
            res.inconclusive.append({"label": ob.label, "detail": v.detail, "cell": v.cell})
        if validate and len(val_points) < validate:
            val_points.append((out["hyps"], out["impl_terms"]))
        if not first_hyps:
            first_hyps.append(out["hyps"])
        n_paths[0] += 1
        if pending_replays and time.time() - t_start > EARLY_STOP_S:
            # counterexample candidates exist and the item has used its wall budget: go and replay them instead of
            # exploring every remaining path (never taken on a tree where the property holds: no candidates there)
            raise _EnoughEvidence()
        return None

    prof_funcs = set()

    def profiler(frame, event, arg):
        if event == "call":
            fn = frame.f_code.co_filename
            if "/pyhf/" in fn and "/pyhf_smt/" not in fn:
                mod = fn.split("/pyhf/", 1)[1][:-3].replace("/", ".")
                prof_funcs.add(f"pyhf.{mod}.{frame.f_code.co_qualname}")
        return None

    try:
        if profile:
            sys.setprofile(profiler)
        try:
            try:
                paths = explore(run_main, max_paths=max_paths)
                res.paths = len(paths)
            except _EnoughEvidence:
                res.paths = n_paths[0]
                res.notes.append(f"exploration stopped after {n_paths[0]} paths: counterexample candidates found and {EARLY_STOP_S}s used; remaining paths not explored")
            except WallBudgetExceeded:
                res.paths = n_paths[0]
                if pending_replays:
                    res.notes.append(f"exploration stopped after {n_paths[0]} paths: wall budget of {wall_s}s used; counterexample candidates are replayed")
                else:
                    res.inconclusive.append({"label": "<wall budget>", "detail": f"work item exceeded its wall budget of {wall_s}s after {n_paths[0]} paths"})
        finally:
            if profile:
                sys.setprofile(None)
        res.functions = sorted(prof_funcs)
        if res.paths == 0:
            res.inconclusive.append({"label": "<no feasible path>", "detail": "assumptions unsatisfiable?"})

        CTX.deadline = time.time() + wall_s / 2       # replays / validation / twin: a further half budget
        # ---- replay of counterexamples -----------------------------------------------------------
        symbols = dict(CTX.symbols)
        for pr in pending_replays:
            rec = {"label": pr["replay_label"], "sym_label": pr["label"], "key": pr["key"], "detail": pr["detail"][:500], "cell": pr["cell"],
                   "reproduced": False, "model": _model_str(pr["model"]), "tries": 0}
            model = pr["model"]
            if pr["kind"] == "fail":
                # structural failure (holds for every value): replay at a generic point, not at the solver's
                # arbitrary (typically all-zero) model where coincidences hide it
                gp = _random_point(rng, pr["hyps"], symbols)
                if gp is not None:
                    model = gp
            blocked = []
            for attempt in range(max_models):
                rec["tries"] = attempt + 1
                try:
                    cenv = conc_run(harness, model, tier=tier, seed=seed, params=params)
                    hit = [o for o in cenv.obligations if o.label == pr["replay_label"]]
                    if not hit and pr["label"] == "<unexpected-exception>":
                        # symbolically the code raised (e.g. a foreign library refused symbolic tensors); on concrete
                        # numbers the same input may show up as a wrong value instead: any failing obligation reproduces it
                        hit = [o for o in cenv.obligations if o.value_ok is False][:1]
                    if hit and hit[0].value_ok is False:
                        rec["reproduced"] = True
                        rec["model"] = _model_str(model)
                        rec["observed"] = f"impl={hit[0].impl} oracle={hit[0].oracle} delta={hit[0].delta} {hit[0].msg}"
                        break
                    rec["replay_note"] = "obligation held at the model point" if hit else "obligation not reached in concrete run"
                except ReplayInvalid as e:
                    rec["replay_note"] = f"replay invalid: {e}"
                except Exception as e:  # real code raised on the concrete point
                    rec["replay_note"] = f"concrete run raised {type(e).__name__}: {e}"
                if pr["kind"] == "fail":
                    # structural failure: try further generic points (all-positive ones avoid NaN log-densities that
                    # would mask a difference)
                    gp = _random_point(rng, pr["hyps"], symbols, positive_only=True)
                    if gp is not None:
                        model = gp
                        continue
                # ask for another model of the same obligation
                blocked.append(z3.Or([c != zexpr(SV(model[n])) for n, c in symbols.items() if n in model][:40]))
                v2 = decide.prove(pr["goal"], hyps=pr["hyps"] + blocked, timeout_ms=timeout_ms,
                                  cell_limit=cell_limit, use_ctx=False, symbols=symbols)
                if v2.status != "sat":
                    break
                model = v2.model
            if rec["reproduced"]:
                rec["more_of_same_key"] = dup_keys.get(pr["key"], 0)
                res.violations.append(rec)
            else:
                res.inconclusive.append({"label": pr["label"], "detail": "sat but not reproduced on the numpy backend: "
                                         + rec.get("replay_note", "") + " | " + rec["detail"], "cell": pr["cell"]})

        # ---- float behaviour at case boundaries (NOT solver-decided; complements the exact-arithmetic verdicts) ----
        # the real numpy code is run at points pinned to a case boundary (e.g. statistic = 0): a NaN / infinity where the
        # exact value is finite is a defect of the float implementation that exact arithmetic cannot see; it is a real-code
        # observation by construction and reported as a violation
        for pins in (boundary or []):
            if not first_hyps or any(n not in symbols for n in pins):
                continue
            extra = [symbols[n] == zexpr(SV(Fraction(v))) for n, v in pins.items()]
            bad = None
            for _ in range(BOUNDARY_TRIES):
                pt = _random_point(rng, first_hyps[0] + extra, symbols, positive_only=True)
                if pt is None:
                    break
                try:
                    cenv = conc_run(harness, pt, tier=tier, seed=seed, params=params)
                except Exception:
                    continue
                res.boundary_points += 1
                for o in cenv.obligations:
                    if o.kind == "eq" and o.value_ok is False and o.impl is not None and o.oracle is not None \
                            and (mpmath.isnan(o.impl) or mpmath.isinf(o.impl)) and mpmath.isfinite(o.oracle):
                        bad = (o, pt)
                        break
                if bad:
                    break
            if bad:
                o, pt = bad
                res.violations.append({"label": o.label, "sym_label": o.label, "key": f"{o.key}:float-boundary", "detail": f"boundary pins {pins}", "cell": None,
                                       "reproduced": True, "model": _model_str(pt), "tries": 1,
                                       "observed": f"impl={o.impl} oracle={o.oracle} at a point pinned to {pins} (float implementation, not solver-decided)"})

        # ---- encoding validation -------------------------------------------------------------------
        for hyps, impl_terms in val_points:
            pt = _random_point(rng, hyps, symbols)
            if pt is None:
                continue
            try:
                cenv = conc_run(harness, pt, tier=tier, seed=seed, params=params)
            except ReplayInvalid:
                continue
            except Exception as e:
                note = f"validation point skipped: concrete run raised {type(e).__name__}: {str(e)[:120]}"
                if note not in res.notes:
                    res.notes.append(note)
                continue
            got = {o.label: o for o in cenv.obligations if o.kind == "eq"}
            for label, term in impl_terms.items():
                if label not in got:
                    continue
                try:
                    sv = decide.evaluate(term, pt)
                except (ZeroDivisionError, KeyError, ValueError):
                    continue
                cv = got[label].impl
                if mpmath.isnan(cv) or mpmath.isinf(cv):
                    continue
                res.validated += 1
                if abs(sv - cv) > 1e-7 * max(1, abs(cv)):
                    res.validation_errors.append(f"{label}: symbolic {mpmath.nstr(sv, 15)} vs numpy {mpmath.nstr(cv, 15)} at {_model_str(pt)}")

        # ---- reachability twin ------------------------------------------------------------------------
        if twin and labels_seen and not res.violations:      # an item that already fails needs no vacuity guard
            cands = sorted(twin_cands) or sorted(set(labels_seen))
            start = rng.randrange(len(cands))
            # a label that exists only symbolically (no concrete counterpart to replay against) is skipped: up to three tries
            for attempt in range(min(3, len(cands))):
                tl = cands[(start + attempt) % len(cands)]
                found = {"sat": False, "replayed": False, "present": True}

                def run_twin():
                    out = one_run(twin_label=tl, collect=False)
                    for ob, v in out["sat"]:
                        if ob.label == tl and not found["replayed"]:
                            found["sat"] = True
                            try:
                                cenv = conc_run(harness, v.model, twin_label=tl, tier=tier, seed=seed, params=params)
                                hit = [o for o in cenv.obligations if o.label == tl]
                                if not hit:
                                    found["present"] = False
                                if hit and hit[0].value_ok is False:
                                    found["replayed"] = True
                            except Exception:
                                pass
                    if found["replayed"]:
                        raise _EnoughEvidence()
                try:
                    explore(run_twin, max_paths=max_paths)
                except _EnoughEvidence:
                    pass
                except WallBudgetExceeded:
                    res.notes.append(f"twin on '{tl}' abandoned: wall budget")
                    if not found["replayed"]:
                        res.twin = None
                        break
                res.twin = bool(found["sat"] and found["replayed"])
                res.notes.append(f"twin perturbed '{tl}': sat={found['sat']} replayed={found['replayed']}")
                if res.twin or found["present"]:
                    break
    except PathBudgetExceeded as e:
        res.inconclusive.append({"label": "<path budget>", "detail": str(e)})
    except WallBudgetExceeded:
        res.inconclusive.append({"label": "<wall budget>", "detail": f"work item exceeded its wall budget ({wall_s}s + {wall_s // 2}s)"})
    except Unsupported as e:
        res.inconclusive.append({"label": "<unsupported>", "detail": str(e)})
    except Exception as e:
        res.error = f"{type(e).__name__}: {e}\n{traceback.format_exc()[-1500:]}"
    res.queries = decide.STATS["queries"] + CTX.nqueries
    res.solver_time = decide.STATS["solver_time"] + CTX.solver_time
    res.labels = len(set(labels_seen))
    res.wall = time.time() - t_start
    for v in res.violations:
        v.pop("goal", None)
    return res

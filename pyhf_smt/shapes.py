"""Spec-shape grammar (DESIGN.md 2.6).  A shape is a model spec whose numeric leaves are placeholders:

  "$n" nominal yield (>0)         "$l"/"$h" histosys lo/hi data (free reals)
  "$nl"/"$nh" normsys factors (>0) "$u" shapesys uncertainty (>0)   "$e" staterror uncertainty (>0)
  "$la"/"$ls" lumi auxdata / sigma (>0)   "$x" free real   "$p" positive real
Concrete numbers stay concrete (e.g. 0.0 for a zero-uncertainty bin).
realize(env, shape) replaces placeholders by env.sym symbols (deterministic names).
"""
from __future__ import annotations

import copy
import itertools
import random

POSITIVE = {"$n", "$nl", "$nh", "$u", "$e", "$la", "$ls", "$p"}


def realize(env, shape, prefix=""):
    counter = {}

    def rec(x):
        if isinstance(x, dict):
            return {k: rec(v) for k, v in x.items()}
        if isinstance(x, list):
            return [rec(v) for v in x]
        if isinstance(x, str) and x.startswith("$"):
            k = counter.get(x, 0)
            counter[x] = k + 1
            return env.sym(f"{prefix}{x[1:]}{k}", positive=x in POSITIVE)
        return x
    return rec(copy.deepcopy(shape))


# ---- modifier / sample / channel constructors ---------------------------------------------------
def normfactor(name="mu"):
    return {"name": name, "type": "normfactor", "data": None}


def lumi():
    return {"name": "lumi", "type": "lumi", "data": None}


def histosys(name, nb):
    return {"name": name, "type": "histosys", "data": {"lo_data": ["$l"] * nb, "hi_data": ["$h"] * nb}}


def normsys(name):
    return {"name": name, "type": "normsys", "data": {"lo": "$nl", "hi": "$nh"}}


def shapesys(name, nb, zero=()):
    return {"name": name, "type": "shapesys", "data": [0.0 if b in zero else "$u" for b in range(nb)]}


def staterror(name, nb, zero=()):
    return {"name": name, "type": "staterror", "data": [0.0 if b in zero else "$e" for b in range(nb)]}


def shapefactor(name):
    return {"name": name, "type": "shapefactor", "data": None}


def sample(name, nb, *mods, zero=()):
    return {"name": name, "data": [0.0 if b in zero else "$n" for b in range(nb)], "modifiers": list(mods)}


def channel(name, *samples):
    return {"name": name, "samples": list(samples)}


LUMICFG = {"name": "lumi", "auxdata": ["$la"], "sigmas": ["$ls"], "bounds": [[0.0, 10.0]], "inits": [1.0]}


def model(channels, parameters=None, poi="mu"):
    s = {"channels": list(channels)}
    if parameters:
        s["parameters"] = list(parameters)
    return {"spec": s, "poi": poi}


def make_mod(mtype, name, nb):
    if mtype == "normfactor":
        return normfactor(name)
    if mtype == "lumi":
        return lumi()
    if mtype == "histosys":
        return histosys(name, nb)
    if mtype == "normsys":
        return normsys(name)
    if mtype == "shapesys":
        return shapesys(name, nb)
    if mtype == "staterror":
        return staterror(name, nb)
    if mtype == "shapefactor":
        return shapefactor(name)
    raise KeyError(mtype)


MODTYPES = ["normfactor", "lumi", "histosys", "normsys", "shapesys", "staterror", "shapefactor"]


# ---- family F: fixed core list ---------------------------------------------------------------------
def family_core():
    F = []

    def add(tag, channels, parameters=None, poi="mu"):
        m = model(channels, parameters, poi)
        m["tag"] = tag
        F.append(m)

    # each modifier type alone on the background of a 2-sample 2-bin channel
    for t in MODTYPES:
        pars = [LUMICFG] if t == "lumi" else None
        nm = "lumi" if t == "lumi" else f"m_{t}"
        add(f"single:{t}", [channel("ch", sample("sig", 2, normfactor()), sample("bkg", 2, make_mod(t, nm, 2)))], pars)
    # every pair of types on one sample
    for t1, t2 in itertools.combinations([t for t in MODTYPES if t != "normfactor"], 2):
        pars = [LUMICFG] if "lumi" in (t1, t2) else None
        n1 = "lumi" if t1 == "lumi" else f"a_{t1}"
        n2 = "lumi" if t2 == "lumi" else f"b_{t2}"
        add(f"pair:{t1}+{t2}", [channel("ch", sample("sig", 2, normfactor()),
                                         sample("bkg", 2, make_mod(t1, n1, 2), make_mod(t2, n2, 2)))], pars)
    # sharing across samples / channels / types
    add("share:normsys-samples", [channel("ch", sample("sig", 2, normfactor(), normsys("k")), sample("bkg", 2, normsys("k")))])
    add("share:histosys-channels", [channel("B", sample("s", 2, normfactor(), histosys("h", 2))),
                                    channel("A", sample("s", 3, histosys("h", 3)), sample("t", 3, normsys("k")))])
    add("share:types", [channel("ch", sample("sig", 2, normfactor()), sample("bkg", 2, histosys("x", 2), normsys("x")))])
    add("share:normfactor-channels", [channel("c2", sample("s", 1, normfactor())), channel("c1", sample("s", 2, normfactor()), sample("b", 2, normfactor("nb")))])
    add("share:staterror-samples", [channel("ch", sample("sig", 2, normfactor()), sample("b1", 2, staterror("st", 2)), sample("b2", 2, staterror("st", 2), normsys("k")))])
    add("share:staterror-channels", [channel("B", sample("s", 2, normfactor()), sample("b", 2, staterror("stat", 2))),
                                     channel("A", sample("b", 1, staterror("stat", 1), histosys("h", 1)))])
    add("share:shapefactor-channels", [channel("B", sample("s", 2, normfactor()), sample("b", 2, shapefactor("sf"))),
                                       channel("A", sample("b", 2, shapefactor("sf")))])
    add("share:lumi", [channel("B", sample("s", 2, normfactor(), lumi()), sample("b", 2, shapesys("u", 2), lumi())),
                       channel("A", sample("b", 1, lumi(), normsys("k")))], [LUMICFG])
    # a sample absent from a channel; bin-wise modifier in the 2nd of 3 channels
    add("absent-sample", [channel("c1", sample("s", 2, normfactor()), sample("b", 2, normsys("k"))),
                          channel("c2", sample("b", 1, normsys("k"), histosys("h", 1)))])
    add("binwise-middle", [channel("a", sample("s", 1, normfactor())), channel("b", sample("s", 3, normfactor()), sample("q", 3, shapesys("u", 3), staterror("e", 3))),
                           channel("c", sample("q", 2, histosys("h", 2)))])
    # unequal numbers of Poisson- and Gaussian-constrained bin-wise parameters next to scalar constraints
    add("binwise-unequal", [channel("B", sample("s", 2, normfactor(), normsys("k")), sample("q", 2, shapesys("u", 2), histosys("h", 2))),
                            channel("A", sample("q", 1, staterror("e", 1), histosys("h", 1)))])
    # zero-uncertainty / zero-yield bins
    add("zero:shapesys-unc", [channel("ch", sample("sig", 2, normfactor()), sample("bkg", 2, shapesys("u", 2, zero=(1,))))])
    add("zero:staterror-unc", [channel("ch", sample("sig", 2, normfactor()), sample("bkg", 2, staterror("e", 2, zero=(0,))))])
    add("zero:yield-staterror-shared", [channel("ch", sample("sig", 2, normfactor()), sample("b1", 2, staterror("st", 2), zero=(0,)),
                                                 sample("b2", 2, staterror("st", 2), normsys("k")))])
    add("zero:staterror-unc-shared", [channel("ch", sample("sig", 2, normfactor()), sample("b1", 2, staterror("st", 2, zero=(0,))),
                                               sample("b2", 2, staterror("st", 2), normsys("k")))])
    add("zero:yield-histosys-normsys", [channel("ch", sample("sig", 2, normfactor(), zero=(1,)), sample("bkg", 3 - 1, histosys("h", 2), normsys("k"), zero=(0,)),
                                                 sample("b2", 2, histosys("h", 2), staterror("st", 2)))])
    add("zero:yield-shapesys", [channel("ch", sample("sig", 2, normfactor()), sample("bkg", 2, shapesys("u", 2), zero=(0,)))])
    # POI elsewhere in the order / no POI
    add("poi:last", [channel("ch", sample("sig", 2, normfactor("zz")), sample("bkg", 2, normsys("a"), histosys("b", 2)))], poi="zz")
    add("poi:none", [channel("ch", sample("sig", 2, normfactor("zz")), sample("bkg", 2, normsys("a")))], poi=None)
    # the POI is a one-bin bin-wise set that comes after a multi-bin one in the parameter order
    add("poi:binwise", [channel("A", sample("b", 3, shapefactor("a_shape"), normsys("k"))),
                        channel("B", sample("s", 1, shapefactor("mu_sf")), sample("b", 1, normsys("k")))], poi="mu_sf")
    # two Poisson-constrained sets whose alphabetical order differs from their registration order (channel A first)
    add("shapesys-order", [channel("A", sample("s", 2, normfactor()), sample("b", 2, shapesys("zz_unc", 2))),
                           channel("B", sample("b", 1, shapesys("aa_unc", 1), normsys("k")))])
    # measurement-level overrides of auxdata / sigmas / factors
    add("override:normsys-aux", [channel("B", sample("s", 2, normfactor()), sample("b", 2, shapesys("zz", 2))),
                                 channel("A", sample("b", 2, shapesys("aa", 2), normsys("k")))],
        [{"name": "k", "auxdata": ["$x"]}])
    add("override:staterror", [channel("ch", sample("sig", 2, normfactor()), sample("bkg", 2, staterror("st", 2), histosys("h", 2)))],
        [{"name": "st", "sigmas": ["$p", "$p"], "auxdata": ["$p", "$p"]}, {"name": "h", "auxdata": ["$x"], "inits": [0.5], "bounds": [[-2.0, 2.0]]}])
    add("override:shapesys", [channel("ch", sample("sig", 2, normfactor()), sample("bkg", 2, shapesys("u", 2), normsys("k")))],
        [{"name": "u", "factors": ["$p", "$p"], "auxdata": ["$p", "$p"]}, {"name": "mu", "inits": [2.0], "bounds": [[0.0, 5.0]], "fixed": True}])
    # Gaussian-constrained sets that the measurement holds constant (their widths stay the configured ones)
    add("fixed:lumi", [channel("ch", sample("sig", 2, normfactor(), lumi()), sample("bkg", 2, lumi(), normsys("k")))], [dict(LUMICFG, fixed=True)])
    add("fixed:staterror", [channel("ch", sample("sig", 2, normfactor()), sample("bkg", 2, staterror("st", 2), normsys("k")))],
        [{"name": "st", "fixed": True}, {"name": "k", "fixed": True}])
    # rich model
    add("rich", [channel("SR", sample("sig", 2, normfactor(), normsys("jes")),
                          sample("bkg", 2, histosys("jes", 2), normsys("xs"), staterror("st", 2)),
                          sample("qcd", 2, shapesys("q", 2), staterror("st", 2))),
                 channel("CR", sample("bkg", 1, histosys("jes", 1), normsys("xs"), shapefactor("sf")))])
    return F


# ---- seeded random shapes (F+) -----------------------------------------------------------------------
def random_shape(rng, max_ch=3, max_s=3, max_b=3, max_m=4):
    nch = rng.randint(1, max_ch)
    sample_pool = ["sA", "sB", "sC"][: max_s]
    shared_names = {"histosys": ["h1", "h2"], "normsys": ["n1", "n2", "h1"], "normfactor": ["mu", "k1"],
                    "shapefactor": ["f1"], "lumi": ["lumi"]}
    used_unshared = set()
    has_lumi = False
    chans = []
    sf_bins = {}
    st_owner = {}
    for ci in range(nch):
        nb = rng.randint(1, max_b)
        cname = ["cC", "cA", "cB"][ci]
        ns = rng.randint(1, len(sample_pool))
        names = rng.sample(sample_pool, ns)
        samples = []
        for si, sn in enumerate(names):
            mods = []
            types = rng.sample(MODTYPES, rng.randint(0, min(max_m, len(MODTYPES))))
            seen = set()
            for t in types:
                if t in ("shapesys",):
                    nm = f"u_{cname}_{sn}"
                    if nm in used_unshared:
                        continue
                    used_unshared.add(nm)
                elif t == "staterror":
                    nm = f"st_{cname}"
                elif t == "shapefactor":
                    nm = rng.choice(shared_names[t])
                    if sf_bins.setdefault(nm, nb) != nb:
                        continue
                elif t == "lumi":
                    nm = "lumi"
                    has_lumi = True
                else:
                    nm = rng.choice(shared_names[t])
                if (t, nm) in seen:
                    continue
                seen.add((t, nm))
                mods.append(make_mod(t, nm, nb))
            samples.append(sample(sn, nb, *mods))
        chans.append(channel(cname, *samples))
    # guarantee a POI normfactor "mu" on the first sample of the first channel
    s0 = chans[0]["samples"][0]
    if not any(m["type"] == "normfactor" and m["name"] == "mu" for m in s0["modifiers"]):
        s0["modifiers"].insert(0, normfactor("mu"))
    return model(chans, [LUMICFG] if has_lumi else None, "mu")


def family_plus(seed, n):
    rng = random.Random(1000 + seed)
    out = []
    for k in range(n):
        # beyond the first 200 shapes the limits are raised to 3 channels x 3 samples x 4 bins x 5 modifiers
        m = random_shape(rng) if k < 200 else random_shape(rng, max_b=4, max_m=5)
        m["tag"] = f"rand{seed}:{k}"
        out.append(m)
    return out


def walk_mods(spec):
    for c in spec["channels"]:
        for s in c["samples"]:
            for m in s["modifiers"]:
                yield c, s, m

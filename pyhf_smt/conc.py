"""Concrete twin of the symbolic scalar protocol (replay / encoding validation): mpmath numbers."""
from __future__ import annotations

from fractions import Fraction

import mpmath
import numpy as np

mpmath.mp.dps = 50


def _m(x):
    if isinstance(x, CV):
        return x.v
    if isinstance(x, Fraction):
        return mpmath.mpf(x.numerator) / mpmath.mpf(x.denominator)
    if type(x).__name__ == "SV":
        # a value produced by a symbolic-capable backend on concrete inputs (C11 replays)
        if x.concrete:
            return _m(x.v) if isinstance(x.v, Fraction) else mpmath.mpf(float(x.v))
        from . import decide
        return decide.evaluate(x.v, {})
    if isinstance(x, np.ndarray) and x.dtype == object:
        return _m(x.reshape(()).item())
    if isinstance(x, np.ndarray):
        return mpmath.mpf(float(x.reshape(()).item()))
    if isinstance(x, (np.floating, np.integer)):
        return mpmath.mpf(x.item())
    return mpmath.mpf(x)


class CV:
    """concrete value with the SV interface"""
    __slots__ = ("v",)
    concrete = True

    def __init__(self, v):
        self.v = _m(v)

    def __add__(self, o): return CV(self.v + _m(o))
    __radd__ = __add__
    def __sub__(self, o): return CV(self.v - _m(o))
    def __rsub__(self, o): return CV(_m(o) - self.v)
    def __mul__(self, o): return CV(self.v * _m(o))
    __rmul__ = __mul__
    def __truediv__(self, o): return CV(self.v / _m(o))
    def __rtruediv__(self, o): return CV(_m(o) / self.v)
    def __neg__(self): return CV(-self.v)
    def __pos__(self): return self
    def __abs__(self): return CV(abs(self.v))
    def __pow__(self, o): return CV(mpmath.power(self.v, _m(o)))
    def __rpow__(self, o): return CV(mpmath.power(_m(o), self.v))
    def log(self): return CV(mpmath.log(self.v))
    def exp(self): return CV(mpmath.exp(self.v))
    def sqrt(self): return CV(mpmath.sqrt(self.v))
    def __lt__(self, o): return bool(self.v < _m(o))
    def __le__(self, o): return bool(self.v <= _m(o))
    def __gt__(self, o): return bool(self.v > _m(o))
    def __ge__(self, o): return bool(self.v >= _m(o))
    def __eq__(self, o): return bool(self.v == _m(o))
    def __ne__(self, o): return bool(self.v != _m(o))
    def __hash__(self): return hash(self.v)
    def __float__(self): return float(self.v)
    def __int__(self): return int(self.v)
    def __bool__(self): return self.v != 0
    def __repr__(self): return f"CV({mpmath.nstr(self.v, 17)})"

"""T-engine core: symbolic scalars (z3 Real terms), symbolic booleans, object-dtype tensors,
uninterpreted functions with instantiated axioms, and the forking path explorer.

Nothing in here knows about pyhf.  See DESIGN.md section 2.1.
"""
from __future__ import annotations

import math
import time
from fractions import Fraction

import numpy as np
import z3

__all__ = [
    "CTX", "Ctx", "SV", "SB", "XR", "ite", "sb", "zexpr", "fresh", "explore", "Infeasible",
    "PathBudgetExceeded", "SymArray", "symarr", "uf_apply", "unz", "is_sym", "sand", "sor", "snot",
]


_PHI_TABLE = []


class Infeasible(BaseException):
    """raised to abandon a path whose path condition became unsatisfiable"""


class PathBudgetExceeded(Exception):
    pass


class WallBudgetExceeded(BaseException):
    """the work item used up its wall-clock budget (BaseException: must pass through `except Exception` in the code under test)"""


class Unsupported(Exception):
    """an operation left the fragment the engine models; the harness must report inconclusive"""


# ------------------------------------------------------------------------------------------------
# context
# ------------------------------------------------------------------------------------------------
class Ctx:
    """Global symbolic-execution context (one per process; reset per work item)."""

    def __init__(self):
        self.reset()

    def reset(self):
        del _PHI_TABLE[:]       # z3 terms of the old context
        # a fresh z3 context per work item: solver behaviour (term ids, variable orders) then does
        # not depend on which items the same worker process handled before
        try:
            z3.z3._main_ctx = None
        except AttributeError:
            pass
        self.assumptions = []   # z3 BoolRefs assumed for the whole work item
        self.axioms = []        # true instances about UF applications (also asserted in the solver)
        self.path = []          # path condition of the current run
        self.decisions = []     # decision prefix for replay of the current run
        self.pos = 0
        self.nforks = 0
        self.nqueries = 0
        self.solver_time = 0.0
        self.ufs = {}
        self.uf_apps = {}       # z3 ast id -> (name, args, app)   (holds the term: ids are recycled otherwise)
        self.uf_by_name = {}    # name -> list of (args, app)
        self._solver = None
        self._lin = None
        self._added = (0, 0, 0)
        self._base = (0, 0)
        self._decided = {}
        self.decide_timeout_ms = 10000
        self.deadline = float("inf")   # wall-clock limit of the current work item (set by the harness)
        self._signs = {}
        self._signs_n = 0
        self.nsign = 0
        self.symcount = 0
        self.symbols = {}       # name -> z3 const
        self.log = []
        self.unsupported = []   # uses outside the modelled fragment

    # -- uninterpreted functions ------------------------------------------------------------
    def uf(self, name, arity):
        key = (name, arity)
        if key not in self.ufs:
            self.ufs[key] = z3.Function(name, *([z3.RealSort()] * (arity + 1)))
        return self.ufs[key]

    def add_axiom(self, ax):
        self.axioms.append(ax)

    # -- incremental solver: base level = assumptions + axioms, one pushed scope = current run ----
    def solver(self):
        if self._solver is None:
            self._solver = z3.Solver()
            self._solver.set("timeout", self.decide_timeout_ms)
            self._base = (0, 0)
            self._flush_base()
            self._solver.push()
            self._added = (len(self.assumptions), len(self.axioms), 0)
        s = self._solver
        na, nx, npth = self._added
        for a in self.assumptions[na:]:
            s.add(a)
        for a in self.axioms[nx:]:
            s.add(a)
        for a in self.path[npth:]:
            s.add(a)
        self._added = (len(self.assumptions), len(self.axioms), len(self.path))
        return s

    def _flush_base(self):
        ba, bx = self._base
        for a in self.assumptions[ba:]:
            self._solver.add(a)
        for a in self.axioms[bx:]:
            self._solver.add(a)
        self._base = (len(self.assumptions), len(self.axioms))

    def new_run(self, prefix):
        self.path = []
        self.decisions = list(prefix)
        self.pos = 0
        self._decided = {}
        if self._lin is not None:
            self._lin.pop()
            for a in self.assumptions[self._lin_base:]:
                if is_linear(a):
                    self._lin.add(a)
            self._lin_base = len(self.assumptions)
            self._lin.push()
            self._lin_added = (len(self.assumptions), 0)
        if self._solver is not None:
            self._solver.pop()
            self._flush_base()
            self._solver.push()
            self._added = (len(self.assumptions), len(self.axioms), 0)

    def assume(self, cond, check=True):
        """run-scoped assumption (stub contracts): becomes part of the path condition"""
        if isinstance(cond, SB):
            if cond.concrete:
                if not cond.b:
                    raise Infeasible()
                return
            cond = cond.b
        self.path.append(cond)
        # feasibility is only checked cheaply (linear part); a path made infeasible by a nonlinear
        # contract would discharge everything vacuously - the reachability twin guards against that
        if check and is_linear(cond) and self.check_lin() == "unsat":
            raise Infeasible()

    def lin_solver(self):
        """solver over the linear part of assumptions + path (fast, used for linear conditions)"""
        if self._lin is None:
            self._lin = z3.Solver()
            self._lin.set("timeout", self.decide_timeout_ms)
            self._lin_added = (0, 0)
            self._lin_base = 0
            for a in self.assumptions:
                if is_linear(a):
                    self._lin.add(a)
            self._lin_base = len(self.assumptions)
            self._lin.push()
            self._lin_added = (len(self.assumptions), 0)
        s = self._lin
        na, npth = self._lin_added
        for a in self.assumptions[na:]:
            if is_linear(a):
                s.add(a)
        for a in self.path[npth:]:
            if is_linear(a):
                s.add(a)
        self._lin_added = (len(self.assumptions), len(self.path))
        return s

    def check_lin(self, extra=()):
        s = self.lin_solver()
        s.push()
        for e in extra:
            s.add(e)
        t0 = time.time()
        r = s.check()
        self.solver_time += time.time() - t0
        self.nqueries += 1
        s.pop()
        return str(r)

    def check(self, extra=()):
        """satisfiability of assumptions+axioms+path+extra -> 'sat'/'unsat'/'unknown'"""
        s = self.solver()
        s.push()
        for e in extra:
            s.add(e)
        t0 = time.time()
        r = s.check()
        dt = time.time() - t0
        self.solver_time += dt
        self.nqueries += 1
        if dt > 1.0 and len(self.log) < 20:
            self.log.append(f"slow path query {dt:.1f}s -> {r}: {[e.sexpr()[:200] for e in extra]}")
        s.pop()
        return str(r)

    def base_signs(self):
        n = len(self.assumptions)
        if self._signs_n != n:
            for a in self.assumptions[self._signs_n:]:
                if z3.is_app(a) and a.num_args() == 2 and z3.is_const(a.arg(0)) and z3.is_rational_value(a.arg(1)):
                    k = a.decl().kind()
                    c, v = a.arg(0), a.arg(1).numerator_as_long()
                    sg = None
                    if k == z3.Z3_OP_GT and v >= 0:
                        sg = POS
                    elif k == z3.Z3_OP_GE and v > 0:
                        sg = POS
                    elif k == z3.Z3_OP_GE and v == 0:
                        sg = NONNEG
                    elif k == z3.Z3_OP_LT and v <= 0:
                        sg = NEG
                    if sg is not None:
                        old = self._signs.get(c.get_id(), (c, None))[1]
                        self._signs[c.get_id()] = (c, POS if POS in (sg, old) else sg)
            self._signs_n = n
        return self._signs

    def decide(self, cond):
        """cond: z3 BoolRef.  Return a python bool, forking if both outcomes are feasible."""
        sd0 = sign_decide(cond, self.base_signs())      # on the term as written (simplify may obscure the sign structure)
        if sd0 is not None:
            self.nsign += 1
            return sd0
        cond = z3.simplify(cond)
        if z3.is_true(cond):
            return True
        if z3.is_false(cond):
            return False
        sd = sign_decide(cond, self.base_signs())
        if sd is not None:
            self.nsign += 1
            return sd
        key = cond.get_id()
        hit = self._decided.get(key)
        if hit is not None and hit[0].eq(cond):
            return hit[1]
        if time.time() > self.deadline:
            raise WallBudgetExceeded()
        chk = self.check_lin if is_linear(cond) else self.check
        can_true = chk([cond]) != "unsat"
        can_false = chk([z3.Not(cond)]) != "unsat" if can_true else True
        if can_true and not can_false:
            d = True
        elif can_false and not can_true:
            d = False
        else:
            if self.pos < len(self.decisions):
                d = self.decisions[self.pos]
            else:
                d = True
                self.decisions.append(d)
                self.nforks += 1
            self.pos += 1
            self.path.append(cond if d else z3.Not(cond))
        self._decided[key] = (cond, d)
        return d

    def fresh(self, name=None, positive=False, nonneg=False, lo=None, hi=None):
        self.symcount += 1
        if name is None:
            name = f"_s{self.symcount}"
        if name in self.symbols:
            return SV(self.symbols[name])
        c = z3.Real(name)
        self.symbols[name] = c
        if positive:
            self.assumptions.append(c > 0)
        if nonneg:
            self.assumptions.append(c >= 0)
        if lo is not None:
            self.assumptions.append(c >= zexpr(lo))
        if hi is not None:
            self.assumptions.append(c <= zexpr(hi))
        return SV(c)


def _walk_terms(e):
    seen = {}
    stack = [e]
    while stack:
        t = stack.pop()
        i = t.get_id()
        if i in seen:
            continue
        seen[i] = t
        yield t
        stack.extend(t.children())


def is_linear(e):
    """no uninterpreted applications, no products/quotients of non-constants"""
    for t in _walk_terms(e):
        if z3.is_app(t) and t.num_args() > 0 and t.decl().kind() == z3.Z3_OP_UNINTERPRETED:
            return False
        k = t.decl().kind() if z3.is_app(t) else None
        if k == z3.Z3_OP_MUL:
            if sum(1 for c in t.children() if not z3.is_rational_value(c)) > 1:
                return False
        elif k == z3.Z3_OP_DIV:
            if not z3.is_rational_value(t.arg(1)):
                return False
        elif k == z3.Z3_OP_POWER:
            return False
    return True


# ---- cheap sign analysis (decides most build-time branches without a nonlinear solver query) -------
POS, NONNEG, ZERO, NEG, NONPOS, UNK = "pos", "nonneg", "zero", "neg", "nonpos", "unk"
_NEGATE = {POS: NEG, NEG: POS, NONNEG: NONPOS, NONPOS: NONNEG, ZERO: ZERO, UNK: UNK}


def _sign_add(a, b):
    if a == ZERO:
        return b
    if b == ZERO:
        return a
    if a in (POS, NONNEG) and b in (POS, NONNEG):
        return POS if POS in (a, b) else NONNEG
    if a in (NEG, NONPOS) and b in (NEG, NONPOS):
        return NEG if NEG in (a, b) else NONPOS
    return UNK


def _sign_mul(a, b):
    if ZERO in (a, b):
        return ZERO
    if UNK in (a, b):
        return UNK
    strict = a in (POS, NEG) and b in (POS, NEG)
    positive = (a in (POS, NONNEG)) == (b in (POS, NONNEG))
    if positive:
        return POS if strict else NONNEG
    return NEG if strict else NONPOS


def sign_of(e, base, memo=None):
    """sound sign of a real term given signs of constants in `base` (z3 ast id -> sign)"""
    memo = {} if memo is None else memo
    i = e.get_id()
    if i in memo:
        return memo[i][1]
    r = _sign_of(e, base, memo)
    memo[i] = (e, r)
    return r


def _sign_of(e, base, memo):
    if z3.is_rational_value(e):
        n = e.numerator_as_long()
        return POS if n > 0 else NEG if n < 0 else ZERO
    if not z3.is_app(e):
        return UNK
    k = e.decl().kind()
    ch = e.children()
    if k == z3.Z3_OP_UNINTERPRETED:
        if not ch:
            return base.get(e.get_id(), (None, UNK))[1]
        name = e.decl().name()
        if name == "sqrt":
            a = sign_of(ch[0], base, memo)
            return a if a in (POS, NONNEG, ZERO) else UNK
        if name == "exp":
            return POS
        if name == "pow":
            return POS if sign_of(ch[0], base, memo) == POS else UNK
        if name == "Phi":
            return POS
        return UNK
    if k == z3.Z3_OP_ADD:
        r = ZERO
        for c in ch:
            r = _sign_add(r, sign_of(c, base, memo))
            if r == UNK:
                return UNK
        return r
    if k == z3.Z3_OP_SUB:
        r = sign_of(ch[0], base, memo)
        for c in ch[1:]:
            r = _sign_add(r, _NEGATE[sign_of(c, base, memo)])
        return r
    if k == z3.Z3_OP_UMINUS:
        return _NEGATE[sign_of(ch[0], base, memo)]
    if k == z3.Z3_OP_MUL:
        # squares: x*x
        if len(ch) == 2 and ch[0].eq(ch[1]):
            a = sign_of(ch[0], base, memo)
            return POS if a in (POS, NEG) else ZERO if a == ZERO else NONNEG
        r = POS
        for c in ch:
            r = _sign_mul(r, sign_of(c, base, memo))
        return r
    if k == z3.Z3_OP_DIV:
        a, b = sign_of(ch[0], base, memo), sign_of(ch[1], base, memo)
        if b in (POS, NEG):
            return _sign_mul(a, b)
        return UNK
    if k == z3.Z3_OP_POWER and z3.is_rational_value(ch[1]) and ch[1].denominator_as_long() == 1:
        n = ch[1].numerator_as_long()
        a = sign_of(ch[0], base, memo)
        if n == 0:
            return POS
        if n % 2 == 0:
            if a in (POS, NEG):
                return POS
            if n > 0:
                return ZERO if a == ZERO else NONNEG
            return UNK
        if n > 0:
            return a
        return a if a in (POS, NEG) else UNK       # odd negative power of a non-zero base keeps the sign
    if k == z3.Z3_OP_ITE:
        a, b = sign_of(ch[1], base, memo), sign_of(ch[2], base, memo)
        if a == b:
            return a
        if {a, b} <= {POS, NONNEG, ZERO}:
            return NONNEG
        if {a, b} <= {NEG, NONPOS, ZERO}:
            return NONPOS
        return UNK
    if k == z3.Z3_OP_TO_REAL:
        return sign_of(ch[0], base, memo)
    return UNK


def sign_decide(cond, base):
    """True / False when the comparison is settled by sign analysis, else None"""
    if z3.is_not(cond):
        r = sign_decide(cond.arg(0), base)
        return None if r is None else (not r)
    if z3.is_and(cond):
        rs = [sign_decide(c, base) for c in cond.children()]
        if any(r is False for r in rs):
            return False
        return True if all(r is True for r in rs) else None
    if z3.is_or(cond):
        rs = [sign_decide(c, base) for c in cond.children()]
        if any(r is True for r in rs):
            return True
        return False if all(r is False for r in rs) else None
    if z3.is_true(cond):
        return True
    if z3.is_false(cond):
        return False
    if z3.is_eq(cond) and z3.is_bool(cond.arg(0)):
        ra, rb = sign_decide(cond.arg(0), base), sign_decide(cond.arg(1), base)
        return None if ra is None or rb is None else (ra == rb)
    if not z3.is_app(cond) or cond.num_args() != 2 or not z3.is_real(cond.arg(0)):
        return None
    k = cond.decl().kind()
    a, b = cond.arg(0), cond.arg(1)
    memo = {}
    sa, sb_ = sign_of(a, base, memo), sign_of(b, base, memo)
    sd = _sign_add(sa, _NEGATE[sb_])      # sign of a - b
    if k == z3.Z3_OP_EQ:
        return True if sd == ZERO else False if sd in (POS, NEG) else None
    if k == z3.Z3_OP_DISTINCT:
        return False if sd == ZERO else True if sd in (POS, NEG) else None
    if k == z3.Z3_OP_GT:
        return True if sd == POS else False if sd in (NEG, NONPOS, ZERO) else None
    if k == z3.Z3_OP_GE:
        return True if sd in (POS, NONNEG, ZERO) else False if sd == NEG else None
    if k == z3.Z3_OP_LT:
        return True if sd == NEG else False if sd in (POS, NONNEG, ZERO) else None
    if k == z3.Z3_OP_LE:
        return True if sd in (NEG, NONPOS, ZERO) else False if sd == POS else None
    return None


CTX = Ctx()


def fresh(name=None, **kw):
    return CTX.fresh(name, **kw)


def explore(fn, max_paths=256):
    """Run fn() along every feasible decision sequence (depth first, re-execution from the start).
    Returns a list of (path_condition, result).  Exceptions other than Infeasible propagate
    wrapped as results (path_condition, exc) when `fn` opts in by returning them itself."""
    work = [[]]
    out = []
    while work:
        if time.time() > CTX.deadline:
            raise WallBudgetExceeded()
        prefix = work.pop()
        CTX.new_run(prefix)
        try:
            res = fn()
        except Infeasible:
            continue
        taken = CTX.decisions
        for i in range(len(prefix), len(taken)):
            work.append(taken[:i] + [not taken[i]])
        out.append((list(CTX.path), res))
        if len(out) > max_paths:
            raise PathBudgetExceeded(f"more than {max_paths} paths")
    return out


# ------------------------------------------------------------------------------------------------
# scalars
# ------------------------------------------------------------------------------------------------
class XR(float):
    """extended-real concrete token (+-inf, nan); only comparisons are meaningful"""


def _q(x):
    if isinstance(x, Fraction):
        return x
    if isinstance(x, (bool, np.bool_)):
        return Fraction(int(x))
    if isinstance(x, (int, np.integer)):
        return Fraction(int(x))
    if isinstance(x, (float, np.floating)):
        x = float(x)
        if x != x or x in (float("inf"), float("-inf")):
            return XR(x)
        return Fraction(x)
    raise TypeError(f"cannot lift {type(x).__name__} to a symbolic scalar")


def zexpr(v):
    if isinstance(v, SV):
        v = v.v
    if isinstance(v, Fraction):
        return z3.RealVal(f"{v.numerator}/{v.denominator}") if v.denominator != 1 else z3.RealVal(v.numerator)
    if isinstance(v, XR):
        raise Unsupported("inf/nan inside an arithmetic term")
    if isinstance(v, z3.ExprRef):
        return v
    return zexpr(SV(v))


def unz(e):
    """z3 numeral -> Fraction, else keep"""
    if z3.is_rational_value(e):
        return Fraction(e.numerator_as_long(), e.denominator_as_long())
    if z3.is_int_value(e):
        return Fraction(e.as_long())
    return e


def is_sym(x):
    return isinstance(x, SV) and not x.concrete


class SB:
    """symbolic boolean"""
    __slots__ = ("b",)
    __array_ufunc__ = None

    def __init__(self, b):
        if isinstance(b, SB):
            b = b.b
        elif isinstance(b, z3.BoolRef):
            if z3.is_true(b):
                b = True
            elif z3.is_false(b):
                b = False
        else:
            b = bool(b)
        self.b = b

    @property
    def concrete(self):
        return isinstance(self.b, bool)

    def __bool__(self):
        if isinstance(self.b, bool):
            return self.b
        return CTX.decide(self.b)

    def z(self):
        return z3.BoolVal(self.b) if isinstance(self.b, bool) else self.b

    def __and__(self, o):
        o = sb(o)
        if self.concrete:
            return o if self.b else SB(False)
        if o.concrete:
            return self if o.b else SB(False)
        return SB(z3.And(self.b, o.b))
    __rand__ = __and__

    def __or__(self, o):
        o = sb(o)
        if self.concrete:
            return SB(True) if self.b else o
        if o.concrete:
            return SB(True) if o.b else self
        return SB(z3.Or(self.b, o.b))
    __ror__ = __or__

    def __invert__(self):
        if self.concrete:
            return SB(not self.b)
        return SB(z3.Not(self.b))

    def __eq__(self, o):
        o = sb(o)
        if self.concrete and o.concrete:
            return SB(self.b == o.b)
        return SB(self.z() == o.z())

    def __ne__(self, o):
        return ~(self == o)

    def __hash__(self):
        return hash(self.b) if self.concrete else self.b.hash()

    def __deepcopy__(self, memo):
        return self

    def __repr__(self):
        return f"SB({self.b})"


def sb(x):
    if isinstance(x, SB):
        return x
    if isinstance(x, (bool, np.bool_)):
        return SB(bool(x))
    if isinstance(x, SV):
        return x != 0
    if isinstance(x, z3.BoolRef):
        return SB(x)
    if isinstance(x, np.ndarray) and x.ndim == 0:
        return sb(x.item())
    return SB(bool(x))


def sand(*xs):
    r = SB(True)
    for x in xs:
        r = r & sb(x)
    return r


def sor(*xs):
    r = SB(False)
    for x in xs:
        r = r | sb(x)
    return r


def snot(x):
    return ~sb(x)


_POW_FOLD_MAX = 8


class SV:
    """symbolic real value: Fraction / XR (concrete) or z3 ArithRef"""
    __slots__ = ("v",)

    def __init__(self, v):
        if isinstance(v, SV):
            v = v.v
        elif isinstance(v, np.ndarray):
            if v.ndim == 0 or v.size == 1:
                v = SV(v.reshape(()).item()).v
            else:
                raise TypeError("array")
        elif isinstance(v, z3.ExprRef):
            v = unz(v)
            if isinstance(v, z3.ExprRef) and z3.is_int(v):
                v = z3.ToReal(v)
        elif not isinstance(v, (Fraction, XR)):
            v = _q(v)
        self.v = v

    @property
    def concrete(self):
        return not isinstance(self.v, z3.ExprRef)

    # ---- arithmetic -----------------------------------------------------------------------
    @staticmethod
    def _lift(o):
        if isinstance(o, SV):
            return o
        if isinstance(o, SB):
            return ite(o, SV(1), SV(0))
        try:
            return SV(o)
        except TypeError:
            return None

    def _xr(self, o, op):
        # arithmetic with inf/nan tokens: only when both concrete
        if self.concrete and o.concrete:
            try:
                return SV(_q(op(float(self.v), float(o.v))))
            except ZeroDivisionError:
                return SV(XR(float("nan")))
        raise Unsupported("inf/nan combined with a symbolic term")

    def __add__(self, o):
        o = self._lift(o)
        if o is None:
            return NotImplemented
        if isinstance(self.v, XR) or isinstance(o.v, XR):
            return self._xr(o, lambda a, b: a + b)
        if self.concrete:
            if o.concrete:
                return SV(self.v + o.v)
            if self.v == 0:
                return o
        elif o.concrete and o.v == 0:
            return self
        return SV(zexpr(self) + zexpr(o))
    __radd__ = __add__

    def __sub__(self, o):
        o = self._lift(o)
        if o is None:
            return NotImplemented
        if isinstance(self.v, XR) or isinstance(o.v, XR):
            return self._xr(o, lambda a, b: a - b)
        if self.concrete and o.concrete:
            return SV(self.v - o.v)
        if o.concrete and o.v == 0:
            return self
        if self.concrete and self.v == 0:
            return -o
        return SV(zexpr(self) - zexpr(o))

    def __rsub__(self, o):
        return SV(o) - self

    def __mul__(self, o):
        o = self._lift(o)
        if o is None:
            return NotImplemented
        if isinstance(self.v, XR) or isinstance(o.v, XR):
            return self._xr(o, lambda a, b: a * b)
        if self.concrete:
            if o.concrete:
                return SV(self.v * o.v)
            if self.v == 1:
                return o
            if self.v == 0:
                return SV(Fraction(0))
        elif o.concrete:
            if o.v == 1:
                return self
            if o.v == 0:
                return SV(Fraction(0))
        return SV(zexpr(self) * zexpr(o))
    __rmul__ = __mul__

    def __truediv__(self, o):
        o = self._lift(o)
        if o is None:
            return NotImplemented
        if isinstance(self.v, XR) or isinstance(o.v, XR):
            return self._xr(o, lambda a, b: a / b)
        if o.concrete:
            if o.v == 1:
                return self
            if o.v == 0:
                # numpy semantics: x/0 = +-inf or nan
                if self.concrete:
                    if self.v == 0:
                        return SV(XR(float("nan")))
                    return SV(XR(float("inf") if self.v > 0 else float("-inf")))
                raise Unsupported("symbolic value divided by concrete zero")
            if self.concrete:
                return SV(self.v / o.v)
            return SV(zexpr(self) * zexpr(1 / o.v))
        if self.concrete and self.v == 0:
            return SV(Fraction(0))
        return SV(zexpr(self) / zexpr(o))

    def __rtruediv__(self, o):
        return SV(o) / self

    def __floordiv__(self, o):
        o = self._lift(o)
        if self.concrete and o.concrete:
            return SV(Fraction(self.v // o.v))
        raise Unsupported("symbolic floor division")

    def __mod__(self, o):
        o = self._lift(o)
        if self.concrete and o.concrete:
            return SV(Fraction(self.v % o.v))
        raise Unsupported("symbolic modulo")

    def __neg__(self):
        if isinstance(self.v, XR):
            return SV(XR(-float(self.v)))
        return SV(-self.v)

    def __pos__(self):
        return self

    def __abs__(self):
        if self.concrete:
            if isinstance(self.v, XR):
                return SV(XR(abs(float(self.v))))
            return SV(abs(self.v))
        return SV(z3.If(self.v >= 0, self.v, -self.v))

    def __pow__(self, o):
        o = self._lift(o)
        if o is None:
            return NotImplemented
        if isinstance(self.v, XR) or isinstance(o.v, XR):
            return self._xr(o, lambda a, b: a ** b)
        if o.concrete and o.v.denominator == 1 and abs(o.v.numerator) <= _POW_FOLD_MAX:
            n = o.v.numerator
            if self.concrete:
                if n < 0 and self.v == 0:
                    return SV(XR(float("inf")))
                return SV(self.v ** n)
            r = SV(Fraction(1))
            for _ in range(abs(n)):
                r = r * self
            return r if n >= 0 else SV(Fraction(1)) / r
        if self.concrete and self.v == 1:
            return SV(Fraction(1))
        if self.concrete and o.concrete:
            if o.v.denominator == 1:
                return SV(self.v ** o.v.numerator)
            if o.v == Fraction(1, 2):
                return self.sqrt()
        # lift If out of either argument
        for which, x in (("e", o), ("b", self)):
            if not x.concrete and z3.is_app_of(x.v, z3.Z3_OP_ITE):
                c, a, b = x.v.children()
                if which == "e":
                    return ite(SB(c), self ** SV(a), self ** SV(b))
                return ite(SB(c), SV(a) ** o, SV(b) ** o)
        return uf_apply("pow", self, o)

    def __rpow__(self, o):
        return SV(o) ** self

    def log(self):
        if self.concrete:
            if isinstance(self.v, XR):
                return SV(XR(math.log(float(self.v)) if float(self.v) > 0 else float("nan")))
            if self.v == 1:
                return SV(Fraction(0))
            if self.v == 0:
                return SV(XR(float("-inf")))
        if not self.concrete and z3.is_app_of(self.v, z3.Z3_OP_ITE):
            c, a, b = self.v.children()
            return ite(SB(c), SV(a).log(), SV(b).log())
        return uf_apply("log", self)

    def exp(self):
        if self.concrete:
            if isinstance(self.v, XR):
                f = float(self.v)
                return SV(XR(f) if f > 0 or f != f else Fraction(0))
            if self.v == 0:
                return SV(Fraction(1))
        return uf_apply("exp", self)

    def sqrt(self):
        if self.concrete:
            if isinstance(self.v, XR):
                return self
            if self.v >= 0:
                n, d = self.v.numerator, self.v.denominator
                rn, rd = math.isqrt(n), math.isqrt(d)
                if rn * rn == n and rd * rd == d:
                    return SV(Fraction(rn, rd))
        return uf_apply("sqrt", self)

    # numpy object-loop hooks (np.sqrt(objarr) calls elem.sqrt(), etc.)
    def conjugate(self):
        return self

    # ---- comparisons ---------------------------------------------------------------------------
    def _cmp(self, o, fc, fz):
        o = self._lift(o)
        if o is None:
            return NotImplemented
        if self.concrete and o.concrete:
            a = float(self.v) if isinstance(self.v, XR) else self.v
            b = float(o.v) if isinstance(o.v, XR) else o.v
            return SB(bool(fc(a, b)))
        for a, b, flip in ((self, o, False), (o, self, True)):
            if isinstance(a.v, XR):  # inf/nan against a symbolic finite real
                fa = float(a.v)
                if fa != fa:
                    return SB(fc is _NE)
                return SB(bool(fc(fa, 0.0) if not flip else fc(0.0, fa)))
        return SB(fz(zexpr(self), zexpr(o)))

    def __lt__(self, o): return self._cmp(o, _LT, _LT)
    def __le__(self, o): return self._cmp(o, _LE, _LE)
    def __gt__(self, o): return self._cmp(o, _GT, _GT)
    def __ge__(self, o): return self._cmp(o, _GE, _GE)
    def __eq__(self, o): return self._cmp(o, _EQ, _EQ)
    def __ne__(self, o): return self._cmp(o, _NE, _NE)

    def __hash__(self):
        if self.concrete:
            return hash(float(self.v)) if isinstance(self.v, XR) else hash(self.v)
        return self.v.hash()

    def __bool__(self):
        return bool(self != 0)

    def __int__(self):
        if self.concrete and not isinstance(self.v, XR) and self.v.denominator == 1:
            return int(self.v)
        raise TypeError("symbolic value has no int")

    __index__ = __int__

    def __float__(self):
        if self.concrete:
            return float(self.v)
        raise TypeError("symbolic value has no float")

    def __round__(self, n=None):
        if self.concrete:
            return round(self.v, n)
        raise TypeError("symbolic value cannot be rounded")

    def __deepcopy__(self, memo):
        return self

    def __copy__(self):
        return self

    def __reduce__(self):
        if self.concrete:
            return (SV, (self.v if not isinstance(self.v, XR) else float(self.v),))
        raise TypeError("symbolic SV is not picklable")

    def __repr__(self):
        return f"SV({self.v})"

    __str__ = __repr__

    def __format__(self, spec):
        if self.concrete:
            return format(float(self.v), spec)
        return repr(self)


def _LT(a, b): return a < b
def _LE(a, b): return a <= b
def _GT(a, b): return a > b
def _GE(a, b): return a >= b
def _EQ(a, b): return a == b
def _NE(a, b): return a != b


def ite(c, a, b):
    c = sb(c)
    if isinstance(c.b, bool):
        return a if c.b else b
    if isinstance(a, SB) or isinstance(b, SB) or isinstance(a, (bool, np.bool_)) and isinstance(b, (bool, np.bool_)):
        a, b = sb(a), sb(b)
        return SB(z3.If(c.b, a.z(), b.z()))
    a, b = SV(a), SV(b)
    if isinstance(a.v, XR):
        a = _xr_const(a.v)
    if isinstance(b.v, XR):
        b = _xr_const(b.v)
    if a.concrete and b.concrete and not isinstance(a.v, XR) and not isinstance(b.v, XR) and a.v == b.v:
        return a
    if (not a.concrete) and (not b.concrete) and a.v.eq(b.v):
        return a
    return SV(z3.If(c.b, zexpr(a), zexpr(b)))


def _xr_const(x):
    """nan / +-inf selected by a symbolic condition: distinguished unconstrained constants
    (an obligation that can reach them compares them with a finite term and fails, as it should)"""
    f = float(x)
    name = "NaN!" if f != f else ("+Inf!" if f > 0 else "-Inf!")
    return SV(z3.Real(name))


# ------------------------------------------------------------------------------------------------
# uninterpreted functions and their axioms
# ------------------------------------------------------------------------------------------------
def _axioms_for(name, args, r, others, light=False):
    ax = []
    if name == "pow":
        b, e = args
        ax.append(z3.Implies(b > 0, r > 0))
        ax.append(z3.Implies(e == 0, r == 1))
        ax.append(z3.Implies(e == 1, r == b))
        ax.append(z3.Implies(b == 1, r == 1))
        for (oa, orr) in ([] if light else others):
            # same base: pow(b,e)*pow(b,-e) = 1 ; monotone in e is not needed
            ob, oe = oa
            ax.append(z3.Implies(z3.And(ob == b, oe == -e, b > 0), r * orr == 1))
    elif name == "log":
        (x,) = args
        ax.append(z3.Implies(x == 1, r == 0))
        ax.append(z3.Implies(x > 1, r > 0))
        ax.append(z3.Implies(z3.And(x > 0, x < 1), r < 0))
    elif name == "exp":
        (x,) = args
        ax.append(r > 0)
        ax.append(z3.Implies(x == 0, r == 1))
        for (oa, orr) in others:
            ax.append(z3.Implies(oa[0] < x, orr < r))
            ax.append(z3.Implies(oa[0] > x, orr > r))
    elif name == "sqrt":
        (x,) = args
        ax.append(z3.Implies(x >= 0, z3.And(r >= 0, r * r == x)))
        for (oa, orr) in others:
            ax.append(z3.Implies(z3.And(oa[0] >= 0, x >= 0, oa[0] < x), orr < r))
            ax.append(z3.Implies(z3.And(oa[0] >= 0, x >= 0, oa[0] > x), orr > r))
    elif name == "Phi":
        (x,) = args
        for pt, lo, hi in _phi_table():
            ax.append(z3.Implies(x <= pt, r <= hi))
            ax.append(z3.Implies(x >= pt, r >= lo))
        ax.append(z3.And(r > 0, r < 1))
        ax.append(z3.Implies(x == 0, r == z3.RealVal("1/2")))
        ax.append(z3.Implies(x > 0, r > z3.RealVal("1/2")))
        ax.append(z3.Implies(x < 0, r < z3.RealVal("1/2")))
        for (oa, orr) in others:
            ax.append(z3.Implies(oa[0] < x, orr < r))
            ax.append(z3.Implies(oa[0] > x, orr > r))
            ax.append(z3.Implies(oa[0] == -x, orr == 1 - r))
    elif name in CTX_MONOTONE_DEC:
        (x,) = args[:1]
        lo, hi = CTX_MONOTONE_DEC[name]
        if lo is not None:
            ax.append(r > lo)
        if hi is not None:
            ax.append(r < hi)
        for (oa, orr) in others:
            if all(a.eq(b) for a, b in zip(oa[1:], args[1:])):
                ax.append(z3.Implies(oa[0] < x, orr > r))
                ax.append(z3.Implies(oa[0] > x, orr < r))
    return ax


def _phi_table():
    """rigorous rational enclosures lo < Phi(p) < hi on a grid (quantitative knowledge about the normal cdf:
    with monotonicity it confines Phi(x) for every x, which makes counterexamples that depend on the SIZE
    of a tail probability replayable on the real function)"""
    if not _PHI_TABLE:
        import mpmath
        mpmath.mp.dps = 60
        pts = [Fraction(k, 4) for k in range(-48, 49)] + [Fraction(k) for k in (-38, -30, -25, -20, -16, -14, 14, 16, 20, 25, 30, 38)]
        for p in sorted(set(pts)):
            v = mpmath.ncdf(mpmath.mpf(p.numerator) / p.denominator)
            if p <= 0:
                lo_m, hi_m = v * (1 - mpmath.mpf(10) ** -20), v * (1 + mpmath.mpf(10) ** -20)
            else:
                t = mpmath.ncdf(-(mpmath.mpf(p.numerator) / p.denominator))
                lo_m, hi_m = 1 - t * (1 + mpmath.mpf(10) ** -20), 1 - t * (1 - mpmath.mpf(10) ** -20)
            def q(m, up):
                # rational just below / above m with a 2^-400 grid (exactly representable)
                sc = mpmath.mpf(2) ** 400
                n = int(mpmath.floor(m * sc)) + (1 if up else 0)
                return Fraction(n, 2 ** 400)
            _PHI_TABLE.append((zexpr(SV(p)), zexpr(SV(q(lo_m, False))), zexpr(SV(q(hi_m, True)))))
    return _PHI_TABLE


CTX_MONOTONE_DEC = {}   # name -> (lo, hi): strictly decreasing stubs registered by harnesses


def uf_apply(name, *args):
    zs = tuple(z3.simplify(zexpr(SV(a))) for a in args)
    f = CTX.uf(name, len(zs))
    app = f(*zs)
    key = app.get_id()
    hit = CTX.uf_apps.get(key)
    if hit is None or not hit[2].eq(app):
        others = CTX.uf_by_name.setdefault(name, [])
        for ax in _axioms_for(name, zs, app, others, light=True):
            CTX.add_axiom(ax)
        others.append((zs, app))
        CTX.uf_apps[key] = (name, zs, app)
    return SV(app)


# ------------------------------------------------------------------------------------------------
# tensors
# ------------------------------------------------------------------------------------------------
_CMP = {np.greater, np.greater_equal, np.less, np.less_equal, np.equal, np.not_equal}
_LOGIC = {np.logical_and: lambda a, b: sb(a) & sb(b), np.logical_or: lambda a, b: sb(a) | sb(b)}


def _wrap_elem(x):
    if isinstance(x, (SV, SB)):
        return x
    return SV(x)


_vsv = np.frompyfunc(_wrap_elem, 1, 1)
_vite = np.frompyfunc(ite, 3, 1)
_vsb = np.frompyfunc(sb, 1, 1)
_vand = np.frompyfunc(lambda a, b: sb(a) & sb(b), 2, 1)
_vor = np.frompyfunc(lambda a, b: sb(a) | sb(b), 2, 1)
_vnot = np.frompyfunc(lambda a: ~sb(a), 1, 1)


class SymArray(np.ndarray):
    """object-dtype ndarray of SV/SB; keeps comparisons symbolic"""

    tag = None

    def __array_finalize__(self, obj):
        if obj is not None:
            self.tag = getattr(obj, "tag", None)

    def __array_ufunc__(self, ufunc, method, *inputs, **kwargs):
        tags = {getattr(i, "tag", None) for i in inputs if isinstance(i, SymArray)} - {None}
        r = self._ufunc(ufunc, method, *inputs, **kwargs)
        if tags and isinstance(r, SymArray):
            r.tag = next(iter(tags)) if len(tags) == 1 else "MIXED:" + "+".join(sorted(map(str, tags)))
        return r

    def _ufunc(self, ufunc, method, *inputs, **kwargs):
        ins = tuple(np.asarray(i).view(np.ndarray) if isinstance(i, SymArray) else i for i in inputs)
        if method == "__call__":
            if ufunc in _CMP:
                kwargs["dtype"] = object
            elif ufunc is np.logical_and:
                return _post(_vand(*ins))
            elif ufunc is np.logical_or:
                return _post(_vor(*ins))
            elif ufunc is np.logical_not or ufunc is np.invert:
                return _post(_vnot(*ins))
            elif ufunc is np.bitwise_and:
                return _post(_vand(*ins))
            elif ufunc is np.bitwise_or:
                return _post(_vor(*ins))
        if "out" in kwargs:
            kwargs["out"] = tuple(o.view(np.ndarray) if isinstance(o, SymArray) else o for o in kwargs["out"])
        r = getattr(ufunc, method)(*ins, **kwargs)
        return _post(r)

    def any(self, axis=None, out=None, keepdims=False, **kw):
        if axis is not None:
            raise Unsupported("SymArray.any(axis)")
        r = SB(False)
        for e in self.ravel().view(np.ndarray):
            r = r | sb(e)
        return bool(r)

    def all(self, axis=None, out=None, keepdims=False, **kw):
        if axis is not None:
            raise Unsupported("SymArray.all(axis)")
        r = SB(True)
        for e in self.ravel().view(np.ndarray):
            r = r & sb(e)
        return bool(r)

    def tolist(self):
        return self.view(np.ndarray).tolist()

    def __deepcopy__(self, memo):
        return self.view(np.ndarray).copy().view(SymArray)

    def __reduce__(self):
        raise TypeError("SymArray is not picklable")


def _post(r):
    if isinstance(r, np.ndarray):
        if r.dtype == object:
            return r.view(SymArray)
        return r
    if isinstance(r, tuple):
        return tuple(_post(x) for x in r)
    return r


def symarr(x):
    """anything array-like -> SymArray of SV (SB elements are kept)"""
    if isinstance(x, SymArray):
        return x
    if isinstance(x, (SV, SB)):
        a = np.empty((), dtype=object)
        a[()] = x
        return a.view(SymArray)
    if isinstance(x, np.ndarray):
        a = x
    else:
        try:
            a = np.asarray(x, dtype=object)
        except ValueError as e:  # ragged
            raise
    if a.dtype != object:
        a = a.astype(object)
    if a.size:
        a = _vsv(a)
        if not isinstance(a, np.ndarray):  # 0-d result comes back as a bare object
            b = np.empty((), dtype=object)
            b[()] = a
            a = b
    return np.asarray(a, dtype=object).view(SymArray)

"""Independent scalar oracles (DESIGN.md 2.5).  No tensors, masks or index fields.

All functions take an Env (for ite / uninterpreted primitives / constants) and scalars following
the SV protocol (SV in symbolic mode, CV in concrete replay).
"""
from __future__ import annotations

from fractions import Fraction as F

MULT = ("normfactor", "lumi", "normsys", "shapesys", "staterror", "shapefactor")


def interp(env, code, a, lo, nom, hi, alpha0=1):
    """published interpolation formulas; additive codes return the delta, multiplicative the factor"""
    N = env.num
    a, lo, nom, hi = N(a), N(lo), N(nom), N(hi)
    if code == "code0":
        return env.ite(a >= 0, a * (hi - nom), a * (nom - lo))
    if code == "code2":
        # quadratic core, continuous linear extrapolation with the slope of the matching side
        A = N(F(1, 2)) * (hi + lo) - nom
        B = N(F(1, 2)) * (hi - lo)
        core = A * a * a + B * a
        up = (A + B) + (B + 2 * A) * (a - 1)
        dn = (A - B) + (B - 2 * A) * (a + 1)
        return env.ite(a > 1, up, env.ite(a < -1, dn, core))
    if code == "code4p":
        S = N(F(1, 2)) * (hi - lo)
        A = N(F(1, 16)) * (hi + lo - 2 * nom)
        poly = a * S + A * (3 * a ** 6 - 10 * a ** 4 + 15 * a ** 2)
        return env.ite(a > 1, a * (hi - nom), env.ite(a < -1, a * (nom - lo), poly))
    if code == "code1":
        return env.ite(a >= 0, (hi / nom) ** a, (lo / nom) ** (-a))
    if code == "code4":
        up, dn = hi / nom, lo / nom
        a0 = F(alpha0)
        return env.ite(a >= N(a0), up ** a, env.ite(a <= N(-a0), dn ** (-a), code4_poly(env, a, up, dn, a0)))
    raise KeyError(code)


def code4_poly(env, a, up, dn, alpha0=F(1)):
    """1 + sum a_i alpha^i with the a_i that solve the six boundary conditions at +-alpha0.

    The coefficients are obtained here by solving the 6x6 system with exact rational Gaussian
    elimination (not copied from pyhf's A_inverse literal)."""
    N = env.num
    lu, ld = up.log(), dn.log()
    z = F(alpha0)
    upz, dnz = up ** N(z), dn ** N(z)
    rhs = [upz - 1, dnz - 1, lu * upz, -ld * dnz, lu * lu * upz, ld * ld * dnz]
    # value, first and second derivative of 1 + sum a_i x^i at x = +z and x = -z
    A = [
        [z ** i for i in range(1, 7)],
        [(-z) ** i for i in range(1, 7)],
        [i * z ** (i - 1) for i in range(1, 7)],
        [i * (-z) ** (i - 1) for i in range(1, 7)],
        [i * (i - 1) * z ** (i - 2) if i >= 2 else 0 for i in range(1, 7)],
        [i * (i - 1) * (-z) ** (i - 2) if i >= 2 else 0 for i in range(1, 7)],
    ]
    inv = _invert([[F(x) for x in row] for row in A])
    poly = N(1)
    for i in range(6):
        coef = N(0)
        for j in range(6):
            if inv[i][j] != 0:
                coef = coef + N(inv[i][j]) * rhs[j]
        poly = poly + coef * a ** (i + 1)
    return poly


def _invert(M):
    n = len(M)
    A = [row[:] + [F(int(i == j)) for j in range(n)] for i, row in enumerate(M)]
    for c in range(n):
        p = next(r for r in range(c, n) if A[r][c] != 0)
        A[c], A[p] = A[p], A[c]
        piv = A[c][c]
        A[c] = [x / piv for x in A[c]]
        for r in range(n):
            if r != c and A[r][c] != 0:
                f = A[r][c]
                A[r] = [x - f * y for x, y in zip(A[r], A[c])]
    return [row[n:] for row in A]


# ------------------------------------------------------------------------------------------------
# HistFactory rates and constraint terms, walking the spec dictionary as written
# ------------------------------------------------------------------------------------------------
BINWISE = ("shapesys", "staterror", "shapefactor")


def channel_order(spec):
    return sorted({c["name"] for c in spec["channels"]})


def binwise_index(spec):
    """(type, name) -> {(channel, bin): component index}.

    shapesys / staterror: one component per (channel, bin) in which some sample declares the
    modifier, numbered in sorted-channel order then bin order.  shapefactor: component = bin
    index within the channel (the same components are shared by every channel declaring it)."""
    decl = {}
    for c in spec["channels"]:
        for s in c["samples"]:
            for m in s["modifiers"]:
                if m["type"] in BINWISE:
                    decl.setdefault((m["type"], m["name"]), set()).add(c["name"])
    nb = {c["name"]: len(c["samples"][0]["data"]) for c in spec["channels"]}
    out = {}
    for (t, n), chans in decl.items():
        idx = {}
        k = 0
        for cn in sorted(chans):
            for b in range(nb[cn]):
                if t == "shapefactor":
                    idx[(cn, b)] = b
                else:
                    idx[(cn, b)] = k
                    k += 1
        out[(t, n)] = idx
    return out


def rates(env, spec, par, hcode="code4p", ncode="code4", clip_sample=None, clip_bin=None, interp_fn=None,
          by_sample=False):
    """expected rate {(channel, bin): term} (and {(channel, sample, bin): term} with by_sample).

    par(name, i) -> value of component i of the parameter set called `name`.
    interp_fn(code, alpha, lo, nom, hi) defaults to the published formulas (oracle.interp)."""
    N = env.num
    interp_fn = interp_fn or (lambda code, a, lo, nom, hi: interp(env, code, a, lo, nom, hi))
    bidx = binwise_index(spec)
    chans = {}
    for c in spec["channels"]:
        chans.setdefault(c["name"], []).append(c)
    out = {}
    per_sample = {}
    for cn in channel_order(spec):
        for c in chans[cn]:
            nbins = len(c["samples"][0]["data"])
            for b in range(nbins):
                tot = N(0)
                for s in c["samples"]:
                    delta = N(s["data"][b])
                    fac = N(1)
                    for m in s["modifiers"]:
                        t, n, d = m["type"], m["name"], m["data"]
                        if t == "histosys":
                            delta = delta + interp_fn(hcode, par(n, 0), d["lo_data"][b], s["data"][b], d["hi_data"][b])
                        elif t == "normsys":
                            fac = fac * interp_fn(ncode, par(n, 0), d["lo"], 1, d["hi"])
                        elif t in ("normfactor", "lumi"):
                            fac = fac * N(par(n, 0))
                        elif t in BINWISE:
                            fac = fac * N(par(n, bidx[(t, n)][(cn, b)]))
                        else:
                            raise KeyError(t)
                    v = fac * delta
                    if clip_sample is not None:
                        v = env.ite(v < N(clip_sample), N(clip_sample), v)
                    per_sample[(cn, s["name"], b)] = v
                    tot = tot + v
                if clip_bin is not None:
                    tot = env.ite(tot < N(clip_bin), N(clip_bin), tot)
                out[(cn, b)] = tot
    if by_sample:
        return out, per_sample
    return out


def constraint_terms(env, spec, user, par):
    """one entry per constrained parameter set: name -> list of components
    ('N', mean, sigma, default_aux) | ('P', rate_mean, factor, default_aux) in component order.

    user: dict name -> measurement-level parameter config (auxdata / sigmas / factors overrides)."""
    N = env.num
    bidx = binwise_index(spec)
    uses = {}
    for c in spec["channels"]:
        for s in c["samples"]:
            for m in s["modifiers"]:
                uses.setdefault(m["name"], []).append((c, s, m))
    terms = {}
    for name, us in uses.items():
        types = {m["type"] for _, _, m in us}
        cfg = user.get(name, {})
        if types & {"histosys", "normsys"}:
            sig = cfg["sigmas"][0] if cfg.get("sigmas") else 1
            aux = cfg["auxdata"][0] if cfg.get("auxdata") else 0
            terms[name] = [("N", N(par(name, 0)), N(sig), N(aux))]
        elif "lumi" in types:
            terms[name] = [("N", N(par(name, 0)), N(cfg["sigmas"][0]), N(cfg["auxdata"][0]))]
        elif "staterror" in types:
            idx = bidx[("staterror", name)]
            comps = []
            for (cn, b), k in sorted(idx.items(), key=lambda kv: kv[1]):
                tot = N(0)
                q = N(0)
                for (c, s, m) in us:
                    if c["name"] == cn and m["type"] == "staterror":
                        tot = tot + N(s["data"][b])
                for (c, s, m) in us:
                    if c["name"] == cn and m["type"] == "staterror":
                        q = q + (N(m["data"][b]) / tot) ** 2
                sigma = q.sqrt()
                if _is_zero(sigma):
                    sigma = N(1)      # documented placeholder: the component is held fixed
                comps.append((k, sigma))
            out = []
            for k, sigma in comps:
                sg = N(cfg["sigmas"][k]) if cfg.get("sigmas") else sigma
                aux = N(cfg["auxdata"][k]) if cfg.get("auxdata") else N(1)
                out.append(("N", N(par(name, k)), sg, aux, sigma))
            terms[name] = out
        elif "shapesys" in types:
            (c, s, m) = [u for u in us if u[2]["type"] == "shapesys"][0]
            out = []
            for b in range(len(s["data"])):
                if _is_zero(s["data"][b]) or _is_zero(m["data"][b]):
                    tau = N(1)        # invalid bin: placeholder factor, component held fixed
                else:
                    tau = (N(s["data"][b]) ** 2) / (N(m["data"][b]) ** 2)
                fac = N(cfg["factors"][b]) if cfg.get("factors") else tau
                aux = N(cfg["auxdata"][b]) if cfg.get("auxdata") else tau
                out.append(("P", N(par(name, b)), fac, aux, (s["data"][b], m["data"][b])))
            terms[name] = out
    return terms


def _is_zero(x):
    v = getattr(x, "v", x)
    try:
        return bool(getattr(x, "concrete", True)) and float(v) == 0.0
    except TypeError:
        return False

"""Independent scalar oracles (DESIGN.md 2.5).  No tensors, masks or index fields.

All functions take an Env (for ite / uninterpreted primitives / constants) and scalars following
the SV protocol (SV in symbolic mode, CV in concrete replay).
"""
from __future__ import annotations

from fractions import Fraction as F

MULT = ("normfactor", "lumi", "normsys", "shapesys", "staterror", "shapefactor")


def interp(env, code, a, lo, nom, hi):
    """published interpolation formulas; additive codes return the delta, multiplicative the factor"""
    N = env.num
    a, lo, nom, hi = N(a), N(lo), N(nom), N(hi)
    if code == "code0":
        return env.ite(a >= 0, a * (hi - nom), a * (nom - lo))
    if code == "code2":
        # quadratic core, continuous linear extrapolation with the slope of the matching side
        A = N(F(1, 2)) * (hi + lo) - nom
        B = N(F(1, 2)) * (hi - lo)
        core = A * a * a + B * a
        up = (A + B) + (B + 2 * A) * (a - 1)
        dn = (A - B) + (B - 2 * A) * (a + 1)
        return env.ite(a > 1, up, env.ite(a < -1, dn, core))
    if code == "code4p":
        S = N(F(1, 2)) * (hi - lo)
        A = N(F(1, 16)) * (hi + lo - 2 * nom)
        poly = a * S + A * (3 * a ** 6 - 10 * a ** 4 + 15 * a ** 2)
        return env.ite(a > 1, a * (hi - nom), env.ite(a < -1, a * (nom - lo), poly))
    if code == "code1":
        return env.ite(a >= 0, (hi / nom) ** a, (lo / nom) ** (-a))
    if code == "code4":
        up, dn = hi / nom, lo / nom
        return env.ite(a >= 1, up ** a, env.ite(a <= -1, dn ** (-a), code4_poly(env, a, up, dn)))
    raise KeyError(code)


def code4_poly(env, a, up, dn):
    """1 + sum a_i alpha^i with the a_i that solve the six boundary conditions at alpha0 = 1.

    The coefficients are obtained here by solving the 6x6 system with exact rational Gaussian
    elimination (not copied from pyhf's A_inverse literal)."""
    N = env.num
    lu, ld = up.log(), dn.log()
    rhs = [up - 1, dn - 1, lu * up, -ld * dn, lu * lu * up, ld * ld * dn]
    A = [
        [1, 1, 1, 1, 1, 1],
        [-1, 1, -1, 1, -1, 1],
        [1, 2, 3, 4, 5, 6],
        [1, -2, 3, -4, 5, -6],
        [0, 2, 6, 12, 20, 30],
        [0, 2, -6, 12, -20, 30],
    ]
    inv = _invert([[F(x) for x in row] for row in A])
    poly = N(1)
    for i in range(6):
        coef = N(0)
        for j in range(6):
            if inv[i][j] != 0:
                coef = coef + N(inv[i][j]) * rhs[j]
        poly = poly + coef * a ** (i + 1)
    return poly


def _invert(M):
    n = len(M)
    A = [row[:] + [F(int(i == j)) for j in range(n)] for i, row in enumerate(M)]
    for c in range(n):
        p = next(r for r in range(c, n) if A[r][c] != 0)
        A[c], A[p] = A[p], A[c]
        piv = A[c][c]
        A[c] = [x / piv for x in A[c]]
        for r in range(n):
            if r != c and A[r][c] != 0:
                f = A[r][c]
                A[r] = [x - f * y for x, y in zip(A[r], A[c])]
    return [row[n:] for row in A]

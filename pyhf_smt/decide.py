"""Deciding obligations over the terms produced by the T-engine (DESIGN.md 2.1.2 / 2.1.3).

prove(goal, hyps): validity of a Boolean goal under hypotheses by
  cell enumeration over If-condition atoms -> substitution -> sum-of-monomials normalisation of
  equalities -> Ackermannization of uninterpreted applications (+ axiom instances) -> nlsat.
Also: term evaluation with mpmath (replay / encoding validation) and symbolic differentiation.
"""
from __future__ import annotations

import time
from fractions import Fraction

import mpmath
import z3

from . import sym
from .sym import CTX, SV, SB, zexpr, unz

mpmath.mp.dps = 50

STATS = {"queries": 0, "solver_time": 0.0, "cells": 0, "syntactic": 0, "unknown": 0}


def reset_stats():
    for k in STATS:
        STATS[k] = 0 if k != "solver_time" else 0.0


# ------------------------------------------------------------------------------------------------
# term walking
# ------------------------------------------------------------------------------------------------
def _walk(exprs):
    """yield every distinct subterm once (holding references so that ids stay unique)"""
    seen = {}
    stack = list(exprs)
    while stack:
        e = stack.pop()
        i = e.get_id()
        if i in seen:
            continue
        seen[i] = e
        yield e
        stack.extend(e.children())


def is_uf_app(e):
    return z3.is_app(e) and e.num_args() > 0 and e.decl().kind() == z3.Z3_OP_UNINTERPRETED


def uf_apps(exprs):
    return [e for e in _walk(exprs) if is_uf_app(e)]


def consts(exprs):
    return [e for e in _walk(exprs) if z3.is_const(e) and e.decl().kind() == z3.Z3_OP_UNINTERPRETED]


def _bool_atoms(b, acc):
    if z3.is_and(b) or z3.is_or(b) or z3.is_not(b) or z3.is_implies(b):
        for c in b.children():
            _bool_atoms(c, acc)
    elif z3.is_app_of(b, z3.Z3_OP_ITE) or (z3.is_eq(b) and z3.is_bool(b.arg(0))):
        for c in b.children():
            _bool_atoms(c, acc)
    elif z3.is_true(b) or z3.is_false(b):
        pass
    else:
        acc[b.get_id()] = b


def ite_atoms(exprs):
    """atoms of the conditions of every arithmetic If in exprs"""
    acc = {}
    for e in _walk(exprs):
        if z3.is_app_of(e, z3.Z3_OP_ITE) and not z3.is_bool(e):
            _bool_atoms(e.arg(0), acc)
    return list(acc.values())


is_linear = sym.is_linear


class TooManyCells(Exception):
    pass


def cells(atoms, hyps, limit=4096, abstract=False):
    """all-SAT over the atoms under the (linear part of the) hypotheses.  If the solver answers
    unknown (nonlinear atoms), the enumeration is redone with the nonlinear atoms abstracted by
    free Booleans (combinations that are infeasible are then refuted by the per-cell nlsat query,
    which sees all hypotheses)."""
    if not atoms:
        return [[]]
    s = z3.Solver()
    s.set("timeout", 5000)
    for h in hyps:
        if is_linear(h):
            s.add(h)
    proxies = []
    for k, a in enumerate(atoms):
        if is_linear(a) or not abstract:
            proxies.append(a)
        else:
            proxies.append(z3.Bool(f"cellatom!{k}"))
    out = []
    while True:
        r = s.check()
        if r == z3.unsat:
            break
        if r != z3.sat:
            if not abstract:
                return cells(atoms, hyps, limit, abstract=True)
            raise TooManyCells("cell enumeration returned unknown")
        m = s.model()
        vals = [z3.is_true(m.eval(p, model_completion=True)) for p in proxies]
        out.append([(a, v) for a, v in zip(atoms, vals)])
        s.add(z3.Or([z3.Not(p) if v else p for p, v in zip(proxies, vals)]))
        if len(out) > limit:
            raise TooManyCells(f"more than {limit} cells")
    return out


def canonical_atoms(goal):
    """rewrite nonlinear comparison atoms of If-conditions to a canonical  D < 0 / D <= 0  form
    (D sum-of-monomials, sign fixed), so that the same condition written in two ways becomes one atom"""
    atoms = [a for a in ite_atoms([goal]) if not is_linear(a)]
    sub = []
    for a in atoms:
        if not (z3.is_app(a) and a.num_args() == 2 and z3.is_real(a.arg(0))):
            continue
        k = a.decl().kind()
        l, r = a.arg(0), a.arg(1)
        if k == z3.Z3_OP_LT:
            d, strict = l - r, True
        elif k == z3.Z3_OP_LE:
            d, strict = l - r, False
        elif k == z3.Z3_OP_GT:
            d, strict = r - l, True
        elif k == z3.Z3_OP_GE:
            d, strict = r - l, False
        else:
            continue
        d = z3.simplify(d, som=True)
        nd = z3.simplify(-d, som=True)
        if nd.sexpr() < d.sexpr():
            # d OP 0  <=>  not (nd OP' 0) with OP' the other strictness
            new = z3.Not(nd <= 0) if strict else z3.Not(nd < 0)
        else:
            new = (d < 0) if strict else (d <= 0)
        if not new.eq(a):
            sub.append((a, new))
    return z3.substitute(goal, *sub) if sub else goal


# ------------------------------------------------------------------------------------------------
# Ackermannization
# ------------------------------------------------------------------------------------------------
def axioms_for(apps):
    """true instances for the given UF applications (unary and pairwise)"""
    by_name = {}
    ax = []
    for app in apps:
        name = app.decl().name()
        args = tuple(app.children())
        others = by_name.setdefault(name, [])
        ax.extend(sym._axioms_for(name, args, app, others))
        others.append((args, app))
    return ax


def ackermannize(formulas):
    """replace UF applications by fresh reals, add functional-consistency constraints"""
    apps = uf_apps(formulas)
    if not apps:
        return list(formulas), {}
    pairs = []
    for k, app in enumerate(apps):
        pairs.append((app, z3.Real(f"ack!{k}!{app.decl().name()}")))
    new = [z3.substitute(f, *pairs) for f in formulas]
    groups = {}
    for app, var in pairs:
        args = [z3.substitute(a, *pairs) for a in app.children()]
        groups.setdefault(app.decl().name() + "/" + str(app.num_args()), []).append((args, var))
    for g in groups.values():
        for i in range(len(g)):
            for j in range(i + 1, len(g)):
                ai, vi = g[i]
                aj, vj = g[j]
                new.append(z3.Implies(z3.And([x == y for x, y in zip(ai, aj)]), vi == vj))
    return new, dict((v.decl().name(), a) for a, v in pairs)


# ------------------------------------------------------------------------------------------------
# proving
# ------------------------------------------------------------------------------------------------
class Verdict:
    __slots__ = ("status", "model", "cell", "syntactic", "ms", "ncells", "detail")

    def __init__(self, status, model=None, cell=None, syntactic=False, ms=0.0, ncells=0, detail=""):
        self.status = status      # 'unsat' (goal valid) | 'sat' (counter-model) | 'unknown'
        self.model = model        # dict name -> Fraction for base symbols
        self.cell = cell
        self.syntactic = syntactic
        self.ms = ms
        self.ncells = ncells
        self.detail = detail

    def __repr__(self):
        return f"Verdict({self.status}, cells={self.ncells}, syntactic={self.syntactic}, {self.ms:.1f}ms {self.detail})"


def _num(v):
    if z3.is_rational_value(v):
        return Fraction(v.numerator_as_long(), v.denominator_as_long())
    if z3.is_algebraic_value(v):
        a = v.approx(30)
        return Fraction(a.numerator_as_long(), a.denominator_as_long())
    if z3.is_int_value(v):
        return Fraction(v.as_long())
    return None


def extract_model(m, symbols):
    out = {}
    for name, c in symbols.items():
        v = m.eval(c, model_completion=True)
        q = _num(v)
        out[name] = q if q is not None else Fraction(0)
    return out


def _check(formulas, timeout_ms):
    """sat check of a conjunction: Ackermannize, nlsat first, general solver as fall-back"""
    ack, _ = ackermannize(formulas)
    t0 = time.time()
    res, model = "unknown", None
    for mk in (lambda: z3.Tactic("qfnra-nlsat").solver(), lambda: z3.Solver()):
        s = mk()
        s.set("timeout", int(timeout_ms))
        for f in ack:
            s.add(f)
        try:
            r = s.check()
        except z3.Z3Exception:
            r = z3.unknown
        STATS["queries"] += 1
        if r == z3.unsat:
            res = "unsat"
            break
        if r == z3.sat:
            res, model = "sat", s.model()
            break
    STATS["solver_time"] += time.time() - t0
    return res, model


def _normalise_goal(g):
    """equalities/inequalities between reals -> som-normalised difference compared with 0"""
    g = z3.simplify(g)
    if z3.is_eq(g) and z3.is_real(g.arg(0)):
        d = z3.simplify(g.arg(0) - g.arg(1), som=True)
        if z3.is_rational_value(d):
            return z3.BoolVal(d.numerator_as_long() == 0)
        return d == 0
    if z3.is_and(g):
        return z3.simplify(z3.And([_normalise_goal(c) for c in g.children()]))
    return g


def prove(goal, hyps=None, timeout_ms=20000, cell_limit=4096, symbols=None, use_ctx=True):
    """Is `goal` valid under hyps (+ CTX assumptions and current path when use_ctx)?"""
    t0 = time.time()
    if isinstance(goal, SB):
        goal = goal.z()
    hyps = list(hyps or [])
    if use_ctx:
        hyps = list(CTX.assumptions) + list(CTX.path) + hyps
    symbols = symbols if symbols is not None else CTX.symbols
    goal = z3.simplify(goal)
    if z3.is_true(goal):
        STATS["syntactic"] += 1
        return Verdict("unsat", syntactic=True)
    if use_ctx and not hyps[len(CTX.assumptions) + len(CTX.path):] and is_linear(goal) and not ite_atoms([goal]):
        # purely linear goal: refute its negation on the incremental linear path solver
        if CTX.check_lin([z3.Not(goal)]) == "unsat":
            STATS["queries"] += 1
            return Verdict("unsat", ms=(time.time() - t0) * 1000, ncells=1)
    goal = canonical_atoms(goal)
    atoms = ite_atoms([goal])
    try:
        cs = cells(atoms, hyps, cell_limit)
    except TooManyCells as e:
        STATS["unknown"] += 1
        return Verdict("unknown", detail=str(e))
    all_syntactic = True
    for cell in cs:
        STATS["cells"] += 1
        sub = [(a, z3.BoolVal(v)) for a, v in cell]
        g = z3.substitute(goal, *sub) if sub else goal
        g = _normalise_goal(g)
        if z3.is_true(g):
            continue
        all_syntactic = False
        lits = [a if v else z3.Not(a) for a, v in cell]
        base = hyps + lits + [z3.Not(g)]
        apps = uf_apps(base)
        formulas = base + axioms_for(apps)
        res, model = _check(formulas, timeout_ms)
        if res == "unsat":
            continue
        ms = (time.time() - t0) * 1000
        if res == "sat":
            return Verdict("sat", model=extract_model(model, symbols), cell=[(str(a), v) for a, v in cell],
                           ms=ms, ncells=len(cs), detail=g.sexpr()[:400])
        STATS["unknown"] += 1
        return Verdict("unknown", cell=[(str(a), v) for a, v in cell], ms=ms, ncells=len(cs), detail=g.sexpr()[:400])
    if all_syntactic:
        STATS["syntactic"] += 1
    return Verdict("unsat", syntactic=all_syntactic, ms=(time.time() - t0) * 1000, ncells=len(cs))


def prove_eq(a, b, **kw):
    return prove(zexpr(SV(a)) == zexpr(SV(b)), **kw)


# ------------------------------------------------------------------------------------------------
# decomposition of sums of log-density applications (2.1.2 step 0)
# ------------------------------------------------------------------------------------------------
def split_sum(e):
    """flatten a sum into a list of (coefficient Fraction, term)"""
    e = z3.simplify(e)
    out = []

    def rec(t, coef):
        if z3.is_add(t):
            for c in t.children():
                rec(c, coef)
        elif z3.is_app_of(t, z3.Z3_OP_SUB):
            ch = t.children()
            rec(ch[0], coef)
            for c in ch[1:]:
                rec(c, -coef)
        elif z3.is_app_of(t, z3.Z3_OP_UMINUS):
            rec(t.arg(0), -coef)
        elif z3.is_mul(t) and t.num_args() == 2 and z3.is_rational_value(t.arg(0)):
            rec(t.arg(1), coef * _num(t.arg(0)))
        elif z3.is_rational_value(t):
            if _num(t) != 0:
                out.append((coef * _num(t), None))
        else:
            out.append((coef, t))
    rec(e, Fraction(1))
    return out


# ------------------------------------------------------------------------------------------------
# evaluation with mpmath
# ------------------------------------------------------------------------------------------------
def _xlogy(x, y):
    return mpmath.mpf(0) if x == 0 else x * mpmath.log(y)


def _real(f):
    """real-valued interpretation: nan outside the domain (as numpy does)"""
    def g(*a):
        try:
            r = f(*a)
        except (ValueError, ZeroDivisionError):
            return mpmath.mpf("nan")
        if isinstance(r, mpmath.mpc):
            return mpmath.mpf("nan") if r.imag != 0 else r.real
        return r
    return g


UF_INTERP = {
    "pow": lambda b, e: mpmath.power(b, e),
    "log": lambda x: mpmath.log(x),
    "exp": lambda x: mpmath.exp(x),
    "sqrt": lambda x: mpmath.sqrt(x),
    "Phi": lambda x: mpmath.ncdf(x),
    "erf": lambda x: mpmath.erf(x),
    "erfinv": lambda x: mpmath.erfinv(x),
    "poisson_logpdf": lambda n, lam: _xlogy(n, lam) - lam - mpmath.loggamma(n + 1),
    "normal_logpdf": lambda x, mu, s: -((x - mu) / s) ** 2 / 2 - mpmath.log(s) - mpmath.log(2 * mpmath.pi) / 2,
    "xlogy": _xlogy,
    "gammaln": lambda x: mpmath.loggamma(x),
}
UF_INTERP = {k: _real(v) for k, v in UF_INTERP.items()}


def evaluate(e, env, interp=None):
    """evaluate a z3 term (Real or Bool) at env: name -> number, UFs by UF_INTERP / interp"""
    interp = {**UF_INTERP, **(interp or {})}
    memo = {}
    hold = []

    def ev(t):
        i = t.get_id()
        if i in memo:
            return memo[i]
        hold.append(t)
        r = _ev(t)
        memo[i] = r
        return r

    def _ev(t):
        if z3.is_rational_value(t):
            return mpmath.mpf(t.numerator_as_long()) / mpmath.mpf(t.denominator_as_long())
        if z3.is_int_value(t):
            return mpmath.mpf(t.as_long())
        if z3.is_true(t):
            return True
        if z3.is_false(t):
            return False
        k = t.decl().kind()
        ch = t.children()
        if k == z3.Z3_OP_UNINTERPRETED:
            name = t.decl().name()
            if not ch:
                v = env[name]
                return v if isinstance(v, bool) else mpmath.mpf(v.numerator) / mpmath.mpf(v.denominator) if isinstance(v, Fraction) else mpmath.mpf(v)
            return interp[name](*[ev(c) for c in ch])
        if k == z3.Z3_OP_ADD:
            return mpmath.fsum(ev(c) for c in ch)
        if k == z3.Z3_OP_SUB:
            r = ev(ch[0])
            for c in ch[1:]:
                r = r - ev(c)
            return r
        if k == z3.Z3_OP_UMINUS:
            return -ev(ch[0])
        if k == z3.Z3_OP_MUL:
            r = mpmath.mpf(1)
            for c in ch:
                r = r * ev(c)
            return r
        if k == z3.Z3_OP_DIV:
            return ev(ch[0]) / ev(ch[1])
        if k == z3.Z3_OP_POWER:
            return mpmath.power(ev(ch[0]), ev(ch[1]))
        if k == z3.Z3_OP_ITE:
            return ev(ch[1]) if ev(ch[0]) else ev(ch[2])
        if k == z3.Z3_OP_TO_REAL:
            return ev(ch[0])
        if k == z3.Z3_OP_LE:
            return ev(ch[0]) <= ev(ch[1])
        if k == z3.Z3_OP_LT:
            return ev(ch[0]) < ev(ch[1])
        if k == z3.Z3_OP_GE:
            return ev(ch[0]) >= ev(ch[1])
        if k == z3.Z3_OP_GT:
            return ev(ch[0]) > ev(ch[1])
        if k == z3.Z3_OP_EQ:
            return ev(ch[0]) == ev(ch[1])
        if k == z3.Z3_OP_DISTINCT:
            vs = [ev(c) for c in ch]
            return len(set(vs)) == len(vs)
        if k == z3.Z3_OP_AND:
            return all(ev(c) for c in ch)
        if k == z3.Z3_OP_OR:
            return any(ev(c) for c in ch)
        if k == z3.Z3_OP_NOT:
            return not ev(ch[0])
        if k == z3.Z3_OP_IMPLIES:
            return (not ev(ch[0])) or ev(ch[1])
        raise NotImplementedError(f"evaluate: {t.decl().name()} kind {k}")

    return ev(e)


# ------------------------------------------------------------------------------------------------
# calculus on terms (2.1.3)
# ------------------------------------------------------------------------------------------------
def depends_on(e, x):
    xi = x.get_id()
    return any(t.get_id() == xi for t in _walk([e]))


def diff(e, x):
    """d e / d x for terms over + - * / If pow log exp sqrt (x: z3 const)"""
    memo = {}
    hold = []
    zero = z3.RealVal(0)

    def d(t):
        i = t.get_id()
        if i in memo:
            return memo[i]
        hold.append(t)
        r = _d(t)
        memo[i] = r
        return r

    def _d(t):
        if t.eq(x):
            return z3.RealVal(1)
        if z3.is_rational_value(t) or not depends_on(t, x):
            return zero
        k = t.decl().kind()
        ch = t.children()
        if k == z3.Z3_OP_ADD:
            return z3.Sum([d(c) for c in ch])
        if k == z3.Z3_OP_SUB:
            r = d(ch[0])
            for c in ch[1:]:
                r = r - d(c)
            return r
        if k == z3.Z3_OP_UMINUS:
            return -d(ch[0])
        if k == z3.Z3_OP_MUL:
            terms = []
            for j, c in enumerate(ch):
                dc = d(c)
                if z3.is_rational_value(dc) and dc.numerator_as_long() == 0:
                    continue
                rest = [ch[m] for m in range(len(ch)) if m != j]
                terms.append(z3.Product([dc] + rest) if rest else dc)
            return z3.Sum(terms) if terms else zero
        if k == z3.Z3_OP_DIV:
            a, b = ch
            return (d(a) * b - a * d(b)) / (b * b)
        if k == z3.Z3_OP_POWER:
            a, n = ch
            if not z3.is_rational_value(n):
                raise NotImplementedError("diff of symbolic z3 power")
            return n * (a ** (n - 1)) * d(a)
        if k == z3.Z3_OP_ITE:
            return z3.If(ch[0], d(ch[1]), d(ch[2]))
        if k == z3.Z3_OP_UNINTERPRETED:
            name = t.decl().name()
            if name == "pow":
                b, ex = ch
                r = zero
                if depends_on(ex, x):
                    r = r + zexpr(SV(b).log()) * t * d(ex)
                if depends_on(b, x):
                    r = r + ex * zexpr(SV(b) ** SV(ex - 1)) * d(b)
                return r
            if name == "exp":
                return t * d(ch[0])
            if name == "log":
                return d(ch[0]) / ch[0]
            if name == "sqrt":
                return d(ch[0]) / (2 * t)
        raise NotImplementedError(f"diff: {t.decl().name()}")

    return z3.simplify(d(e))


def restrict(e, region_hyps, hyps=()):
    """replace every If-condition atom of e by the truth value it has throughout the region
    (decided by the solver), iterating because outer selections make inner Ifs disappear;
    raises if an atom that survives is not constant on the region"""
    s = z3.Solver()
    s.set("timeout", 10000)
    for h in list(hyps) + list(region_hyps):
        s.add(h)
    for _ in range(16):
        atoms = ite_atoms([e])
        if not atoms:
            return e
        sub, open_atoms = [], []
        for a in atoms:
            s.push(); s.add(a); can_t = s.check() != z3.unsat; s.pop()
            s.push(); s.add(z3.Not(a)); can_f = s.check() != z3.unsat; s.pop()
            if can_t and can_f:
                open_atoms.append(a)
            else:
                sub.append((a, z3.BoolVal(can_t)))
        if not sub:
            raise ValueError(f"atoms {open_atoms} not constant on region")
        e = z3.simplify(z3.substitute(e, *sub))
    raise ValueError("restrict did not converge")


def subst_value(e, x, val):
    """e[x := val], re-lifting through SV so that pow(b,1), pow(b,0), log(1) fold"""
    r = z3.substitute(e, (x, zexpr(SV(val))))
    return refold(r)


def refold(e):
    """rebuild UF applications through the SV constructors (folds pow(b,1) etc.)"""
    memo = {}
    hold = []

    def rb(t):
        i = t.get_id()
        if i in memo:
            return memo[i]
        hold.append(t)
        if is_uf_app(t) and t.decl().name() in ("pow", "log", "exp", "sqrt"):
            args = [SV(rb(c)) for c in t.children()]
            name = t.decl().name()
            if name == "pow":
                r = zexpr(args[0] ** args[1])
            else:
                r = zexpr(getattr(args[0], name)())
        elif t.num_args() == 0:
            r = t
        else:
            ch = [rb(c) for c in t.children()]
            r = z3.substitute(t, *[(o, n) for o, n in zip(t.children(), ch) if not o.eq(n)]) if any(
                not o.eq(n) for o, n in zip(t.children(), ch)) else t
        memo[i] = r
        return r

    return z3.simplify(rb(z3.simplify(e)))

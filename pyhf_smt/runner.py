"""Command-line driver: distributes work items, aggregates verdicts, replays, writes evidence.

Exit codes: 0 all obligations discharged (or only known findings); 1 violation (VIOLATION line
printed); 2 inconclusive / harness error.
"""
from __future__ import annotations

import argparse
import fnmatch
import hashlib
import importlib
import json
import multiprocessing as mp
import os
import sys
import time
import traceback

ROOT = os.path.dirname(os.path.dirname(os.path.abspath(__file__)))

TIER_DEFAULTS = {
    "quick": dict(max_paths=256, timeout_ms=20000, cell_limit=4096),
    "thorough": dict(max_paths=2048, timeout_ms=120000, cell_limit=65536),
}


def _load(prop_id):
    return importlib.import_module(f"pyhf_smt.props.{prop_id.lower()}")


def _worker(args):
    prop_id, item, tier, seed, idx, opts = args
    try:
        import pyhf  # noqa: F401
        from pyhf_smt import harness as H
        mod = _load(prop_id)
        cfg = dict(TIER_DEFAULTS[tier])
        cfg.update(getattr(mod, "BUDGET", {}).get(tier, {}))
        h = mod.harness_for(item)
        res = H.run_item(h, item, tier=tier, seed=seed, twin=opts.get("twin", False),
                         validate=opts.get("validate", 0), profile=opts.get("profile", False),
                         boundary=(mod.boundary(item) if hasattr(mod, "boundary") else None), **cfg)
        return res
    except BaseException as e:  # noqa: BLE001 - a worker must always report
        from pyhf_smt.harness import Result
        r = Result(item)
        r.error = f"{type(e).__name__}: {e}\n{traceback.format_exc()[-2000:]}"
        return r


def known_findings():
    p = os.path.join(ROOT, "known_findings.json")
    if not os.path.exists(p):
        return []
    with open(p) as f:
        return json.load(f).get("findings", [])


def run_replay(prop_id, path):
    from pyhf_smt import harness as H
    from fractions import Fraction
    with open(path) as f:
        rp = json.load(f)
    mod = _load(prop_id)
    item = mod.item_from_json(rp["item"]) if hasattr(mod, "item_from_json") else _tuplify(rp["item"])
    h = mod.harness_for(item)
    values = {k: Fraction(v) for k, v in rp["model"].items()}
    print(f"replaying {prop_id} item={item} label={rp['label']}")
    print("model:", {k: str(v) for k, v in values.items() if not k.startswith("_")})
    try:
        env = H.conc_run(h, values, tier=rp.get("tier", "quick"), seed=rp.get("seed", 0))
    except Exception as e:  # noqa: BLE001
        print(f"concrete run raised {type(e).__name__}: {e}")
        return 2
    hit = [o for o in env.obligations if o.label == rp["label"]]
    if not hit and rp["label"] == "<unexpected-exception>":
        hit = [o for o in env.obligations if o.value_ok is False][:1]
    if not hit:
        print("obligation not reached")
        return 2
    o = hit[0]
    print(f"obligation {o.label} ({o.kind}): impl={o.impl} oracle={o.oracle} delta={o.delta} {o.msg} -> {'HOLDS' if o.value_ok else 'VIOLATED'}")
    if not o.value_ok:
        print(f"VIOLATION property={prop_id} replay={path}")
        return 1
    return 0


def _tuplify(x):
    if isinstance(x, list):
        return tuple(_tuplify(y) for y in x)
    return x


def _jsonable(x):
    if isinstance(x, (tuple, list)):
        return [_jsonable(y) for y in x]
    if isinstance(x, dict):
        return {str(k): _jsonable(v) for k, v in x.items()}
    if isinstance(x, (int, float, str, bool)) or x is None:
        return x
    return str(x)


def main(argv=None):
    ap = argparse.ArgumentParser()
    ap.add_argument("prop")
    ap.add_argument("--tier", default=os.environ.get("VERIF_TIER", "quick"), choices=["quick", "thorough"])
    ap.add_argument("--replay")
    ap.add_argument("--jobs", type=int, default=int(os.environ.get("VERIF_JOBS", os.cpu_count() or 4)))
    ap.add_argument("--only", help="substring filter on items (debugging)")
    ap.add_argument("--no-evidence", action="store_true")
    ap.add_argument("--verbose", "-v", action="store_true")
    a = ap.parse_args(argv)
    prop_id = a.prop.upper()
    seed = int(os.environ.get("VERIF_SEED", "0") or 0)

    import logging
    import warnings
    warnings.filterwarnings("ignore", category=RuntimeWarning)
    logging.getLogger("pyhf").setLevel(logging.CRITICAL)
    import pyhf
    src = os.environ.get("VERIF_PYHF_SRC", "/repo/src").rstrip("/")      # development aid only; the registered commands leave it unset
    if not pyhf.__file__.startswith(src):
        print(f"HARNESS-ERROR pyhf imported from {pyhf.__file__}, expected {src}")
        return 2

    if a.replay:
        return run_replay(prop_id, a.replay)

    mod = _load(prop_id)
    t0 = time.time()
    items = list(mod.items(a.tier, seed))
    if a.only:
        items = [i for i in items if a.only in str(i)]
    n = len(items)
    twin_every = getattr(mod, "TWIN_EVERY", {}).get(a.tier, 8)
    val_every = getattr(mod, "VALIDATE_EVERY", {}).get(a.tier, 4)
    jobs = []
    for idx, it in enumerate(items):
        opts = {"twin": idx % twin_every == 0, "validate": 2 if idx % val_every == 0 else 0, "profile": idx < 3}
        if hasattr(mod, "item_opts"):
            opts.update(mod.item_opts(it, a.tier) or {})
        jobs.append((prop_id, it, a.tier, seed, idx, opts))
    results = []
    if a.jobs <= 1 or n <= 1:
        for j in jobs:
            results.append(_worker(j))
    else:
        ctx = mp.get_context("fork")
        # check-level wall budget: the quick tier must answer within its slot even on a tree where many items
        # degenerate (slow paths, many candidates); items not finished by then are reported as inconclusive
        global_s = getattr(mod, "GLOBAL_WALL_S", {}).get(a.tier, 780 if a.tier == "quick" else 4 * 3600)
        pool = ctx.Pool(min(a.jobs, n), maxtasksperchild=8)
        try:
            it_res = pool.imap_unordered(_worker, jobs, chunksize=1)
            while len(results) < n:
                left = global_s - (time.time() - t0)
                try:
                    r = it_res.next(timeout=max(1.0, left))
                except mp.TimeoutError:
                    unfinished = n - len(results)
                    from pyhf_smt.harness import Result
                    stub = Result(("<global budget>",))
                    stub.inconclusive.append({"label": "<global budget>", "detail": f"{unfinished} of {n} work items not finished within {global_s}s"})
                    results.append(stub)
                    break
                results.append(r)
                if a.verbose:
                    print(f"  item {r.item}: paths={r.paths} obl={r.obligations} viol={len(r.violations)} inc={len(r.inconclusive)} {r.wall:.1f}s", flush=True)
        finally:
            pool.terminate()
            pool.join()

    # ---- aggregate --------------------------------------------------------------------------------
    agg = dict(paths=0, obligations=0, discharged=0, syntactic=0, cells=0, queries=0, solver_time=0.0,
               sym_time=0.0, validated=0, nontrivial=0)
    violations, inconclusive, errors, val_errors, samples, notes, functions = [], [], [], [], [], [], set()
    twins_run = twins_ok = 0
    twin_fail = []
    for r in results:
        for k in agg:
            agg[k] += getattr(r, k)
        for v in r.violations:
            v["item"] = r.item
            violations.append(v)
        for i in r.inconclusive:
            i["item"] = r.item
            inconclusive.append(i)
        if r.error:
            errors.append((r.item, r.error))
        for e in r.validation_errors:
            val_errors.append((r.item, e))
        if r.twin is not None:
            twins_run += 1
            twins_ok += bool(r.twin)
            if not r.twin:
                twin_fail.append((r.item, [nt for nt in r.notes if nt.startswith("twin perturbed")]))
        samples.extend(r.samples[:6])
        for nt in r.notes:
            if nt not in notes and not nt.startswith("twin perturbed"):
                notes.append(nt)
        functions.update(r.functions)
    # a few representative obligations: solver-decided ones first, then symbolic goals, from distinct items
    samples.sort(key=lambda x: (x.get("cells", 0) == 0, x.get("goal") in ("true", "false"), len(str(x.get("goal", ""))) < 40))
    picked, seen_items = [], {}
    for x in samples:
        if seen_items.get(x["item"], 0) >= 2:
            continue
        seen_items[x["item"]] = seen_items.get(x["item"], 0) + 1
        picked.append(x)
        if len(picked) >= 8:
            break
    samples = picked
    wall = time.time() - t0

    known = [k for k in known_findings() if k.get("property") == prop_id and k.get("status") == "known"]
    rc = 0
    new_violations = []
    printed_known = set()
    for v in violations:
        k = next((k for k in known if fnmatch.fnmatchcase(str(v["key"]), k["key"])), None)
        if k is not None:
            if k["key"] not in printed_known:
                print(f"KNOWN-FINDING: property={prop_id} {k['what']} [key={k['key']}]")
                printed_known.add(k["key"])
            continue
        new_violations.append(v)
    seen_keys = set()
    for v in new_violations:
        payload = {"property": prop_id, "item": _jsonable(v["item"]), "label": v["label"], "key": v["key"],
                   "model": v["model"], "tier": a.tier, "seed": seed, "detail": v.get("detail", ""),
                   "observed": v.get("observed", "")}
        h = hashlib.sha256(json.dumps(payload, sort_keys=True).encode()).hexdigest()[:12]
        d = os.path.join(ROOT, "replays", prop_id)
        os.makedirs(d, exist_ok=True)
        path = os.path.join(d, f"{h}.json")
        with open(path, "w") as f:
            json.dump(payload, f, indent=1, sort_keys=True)
        if v["key"] not in seen_keys or a.verbose:
            print(f"VIOLATION property={prop_id} replay={path}")
            print(f"  key={v['key']} label={v['label']} item={v['item']}")
            print(f"  {v.get('observed', '')}")
            seen_keys.add(v["key"])
        rc = 1
    if rc == 1 and (inconclusive or errors) and a.verbose:
        for i in inconclusive[:8]:
            print(f"  (also inconclusive) item={i['item']} label={i['label']}: {str(i.get('detail'))[:300]}")
        for it, e in errors[:3]:
            print(f"  (also harness error) item={it}: {e[-400:]}")
    if rc == 0:
        if errors:
            for it, e in errors[:5]:
                print(f"HARNESS-ERROR property={prop_id} item={it}: {e}")
            rc = 2
        if val_errors:
            for it, e in val_errors[:5]:
                print(f"HARNESS-ERROR property={prop_id} encoding validation failed item={it}: {e}")
            rc = 2
        if inconclusive:
            for i in inconclusive[:8]:
                print(f"INCONCLUSIVE property={prop_id} item={i['item']} label={i['label']}: {str(i.get('detail'))[:300]}")
            rc = 2
        if twins_run and twins_ok < twins_run:
            print(f"HARNESS-ERROR property={prop_id} reachability twin not violated in {twins_run - twins_ok}/{twins_run} items")
            for it, nts in twin_fail[:5]:
                print(f"  item={it} {nts}")
            rc = 2
        if n == 0 or agg["obligations"] == 0:
            print(f"HARNESS-ERROR property={prop_id} no obligations generated")
            rc = 2

    meta = getattr(mod, "META", {})
    if not a.no_evidence and not a.only:
        ev = {
            "property_id": prop_id,
            "tier": a.tier,
            "seed": seed,
            "level": "model_checking",
            "wall_s": round(wall, 2),
            "violations": len(new_violations),
            "assumptions": list(meta.get("assumptions", [])),
            "coverage": {
                "states": max(agg["paths"] + agg["cells"], 0),
                "transitions": agg["queries"] + agg["obligations"],
                "traces_validated_against_impl": agg["validated"],
                "samples": _jsonable(samples) or [{"note": "no obligations"}],
                "obligations": agg["obligations"],
                "discharged": agg["discharged"],
                "discharged_syntactically": agg["syntactic"],
                "sat_replayed": len(violations),
                "known_findings_matched": sorted(printed_known),
                "unknown": len(inconclusive),
                "evaluations": agg["obligations"],
                "distinct_nontrivial": agg["nontrivial"],
                "rule": meta.get("rule", "one obligation per (work item, symbolic path, output cell); counted as distinct non-trivial when "
                                         "the implementation-side term of the obligation still contains at least one solver symbol "
                                         "(i.e. it is a statement over all values of some input, not a comparison of two constants); "
                                         "discharged_syntactically says how many of them normalised to 0 = 0 without a solver query"),
                "work_items": n,
                "symbolic_paths": agg["paths"],
                "cells": agg["cells"],
                "solver_queries": agg["queries"],
                "solver_time_s": round(agg["solver_time"], 3),
                "symbolic_exec_time_s": round(agg["sym_time"], 3),
                "twins_run": twins_run,
                "twin_violated": twins_ok == twins_run and twins_run > 0,
                "functions_encoded": sorted(functions),
                "bounds": meta.get("bounds", {}).get(a.tier, meta.get("bounds", "")),
                "stubs": meta.get("stubs", []),
                "outside_claim": meta.get("outside_claim", []),
                "observations": notes[:20],
                "exhaustive": False,
                "exit_code": rc,
            },
        }
        os.makedirs(os.path.join(ROOT, "evidence"), exist_ok=True)
        with open(os.path.join(ROOT, "evidence", f"{prop_id}.json"), "w") as f:
            json.dump(ev, f, indent=1)
    print(f"{prop_id} {a.tier}: items={n} paths={agg['paths']} obligations={agg['obligations']} discharged={agg['discharged']} "
          f"(syntactic {agg['syntactic']}) cells={agg['cells']} queries={agg['queries']} solver={agg['solver_time']:.1f}s "
          f"validated={agg['validated']} twins={twins_ok}/{twins_run} violations={len(new_violations)} known={len(printed_known)} "
          f"inconclusive={len(inconclusive)} wall={wall:.1f}s exit={rc}")
    return rc


if __name__ == "__main__":
    sys.exit(main())

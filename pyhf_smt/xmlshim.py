"""I/O shims for the XML+ROOT round trip (C18, DESIGN.md 2.3): an exact in-memory ROOT store in place
of uproot, number<->text as an exact round trip (symbolic numbers travel as opaque tokens inside
otherwise real XML text), and a small numpy stand-in for writexml's three element-wise operations."""
from __future__ import annotations

import builtins
import contextlib
import types

import numpy as np

from .sym import SB, SV, ite


class Tokens:
    def __init__(self):
        self.table = {}
        self.rev = {}

    def to_str(self, x):
        if isinstance(x, SV) and not x.concrete:
            key = x.v.get_id()
            if key in self.rev and self.rev[key][1].eq(x.v):
                return self.rev[key][0]
            tok = f"@@{len(self.table)}@@"
            self.table[tok] = x
            self.rev[key] = (tok, x.v)
            return tok
        if isinstance(x, SV):
            return repr(float(x.v)) if x.v.denominator != 1 else str(float(x.v))
        return builtins.str(x)

    def to_float(self, s):
        if isinstance(s, builtins.str) and s.startswith("@@"):
            return self.table[s]
        return builtins.float(s)


class RootStore:
    """exact key -> (values, edges) store per file path; duplicate-key detection as in the real object"""

    def __init__(self):
        self.files = {}

    def recreate(self, path):
        store = self
        path = builtins.str(path)

        class _Writer:
            file_path = path

            def __init__(w):
                w.data = {}

            def __enter__(w):
                store.files[path] = w.data
                return w

            def __exit__(w, *a):
                return False

            def __contains__(w, k):
                return k in w.data

            def __setitem__(w, k, v):
                w.data[k] = v
        return _Writer()

    def open(self, path):
        path = builtins.str(path)
        if path not in self.files:
            raise FileNotFoundError(path)
        snap = dict(self.files[path])      # a handle keeps seeing what was there when it was opened

        class _Hist:
            weighted = False

            def __init__(h, vals, edges):
                h.vals, h.edges = vals, edges

            def to_numpy(h):
                return (_L(h.vals), h.edges)

            def variances(h):
                return _L(h.vals)

        class _Reader:
            def keys(r, cycle=False):
                return list(snap)

            def __getitem__(r, k):
                vals, edges = snap[k]
                return _Hist(list(np.asarray(vals, dtype=object).ravel()), edges)
        return _Reader()

    def to_writable(self, obj):
        return obj


class _L(list):
    """list that also answers .tolist() (what ndarray would)"""

    def tolist(self):
        return list(self)


def np_shim():
    """numpy stand-in for writexml: divide(..., where=b != 0) -> 0 where b == 0, on symbolic scalars"""
    def _truth(w):
        if isinstance(w, SB):
            return bool(w)
        if isinstance(w, np.ndarray):
            return _truth(w.reshape(()).item())
        return bool(w)

    class _NP:
        def __getattr__(self, k):
            return getattr(np, k)

        @staticmethod
        def divide(a, b, out=None, where=True, dtype=None):
            """element-wise a / b where `where` (as computed by the caller) holds, else the value of `out`"""
            scalar = not isinstance(a, (list, tuple, np.ndarray)) or (isinstance(a, np.ndarray) and a.ndim == 0)
            A = [a] if scalar else list(np.asarray(a, dtype=object).ravel())
            Bv = [b] * len(A) if not isinstance(b, (list, tuple, np.ndarray)) or (isinstance(b, np.ndarray) and b.ndim == 0) else list(np.asarray(b, dtype=object).ravel())
            Wv = list(np.broadcast_to(np.asarray(where, dtype=object), (len(A),)))
            Ov = [0.0] * len(A) if out is None else ([out] * len(A) if not isinstance(out, (list, tuple, np.ndarray)) else list(np.asarray(out, dtype=object).ravel()))
            res = _L((SV(x) / SV(y)) if _truth(w) else SV(o) for x, y, w, o in zip(A, Bv, Wv, Ov))
            return res[0] if scalar else res

        @staticmethod
        def zeros_like(a):
            return [0.0] * len(a) if isinstance(a, (list, tuple)) else 0.0

        @staticmethod
        def array(x, dtype=None):
            return np.asarray([list(r) for r in x], dtype=object)

        @staticmethod
        def asarray(x, dtype=None):
            if isinstance(x, (SV, SB, int, float)):
                a = np.empty((), dtype=object)
                a[()] = x
                return a
            return np.asarray(list(x) if not isinstance(x, np.ndarray) else x, dtype=object)
    return _NP()


@contextlib.contextmanager
def installed(symbolic):
    """patch pyhf.writexml / pyhf.readxml for a symbolic run; a concrete replay uses the real uproot"""
    import pyhf.readxml as R
    import pyhf.writexml as W
    if not symbolic:
        R.clear_filecache()
        yield None
        R.clear_filecache()
        return
    toks, store = Tokens(), RootStore()
    fake_uproot = types.SimpleNamespace(recreate=store.recreate, open=store.open, to_writable=store.to_writable)
    saved = (W.uproot, R.uproot, W.np, W.__dict__.get("str"), R.__dict__.get("float"))
    W.uproot = R.uproot = fake_uproot
    W.np = np_shim()
    W.str = toks.to_str
    R.float = toks.to_float
    R.clear_filecache()
    try:
        yield store
    finally:
        W.uproot, R.uproot, W.np = saved[0], saved[1], saved[2]
        for mod, name, old in ((W, "str", saved[3]), (R, "float", saved[4])):
            if old is None:
                mod.__dict__.pop(name, None)
            else:
                setattr(mod, name, old)
        R.clear_filecache()

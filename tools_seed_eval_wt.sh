#!/bin/sh
# usage: tools_seed_eval_wt.sh <patch.diff> <ID> [<ID> ...]
# like tools_seed_eval.sh but never touches /repo's working tree: the change is applied in a scratch git worktree of /repo's
# HEAD under /tmp (removed afterwards) and the checks are pointed at it through the development override VERIF_PYHF_SRC.
cd "$(dirname "$0")"
P=$(readlink -f "$1"); shift
W=$(mktemp -d /tmp/seedwt.XXXXXX)
git -C /repo worktree add --detach "$W" HEAD >/dev/null 2>&1 || { echo "worktree failed"; exit 3; }
cp /repo/src/pyhf/_version.py "$W/src/pyhf/_version.py" 2>/dev/null
git -C "$W" apply "$P" || { echo "patch does not apply"; git -C /repo worktree remove --force "$W"; exit 3; }
for id in "$@"; do
  VERIF_PYHF_SRC="$W/src" ./check "$id" --tier "${TIER:-quick}" --no-evidence 2>/dev/null | grep -v "^KNOWN" | grep "^VIOLATION\|^  key\|^C[0-9][0-9] \|^INCONCLUSIVE\|^HARNESS" | head -${LINES_MAX:-6} | cut -c1-240
done
git -C /repo worktree remove --force "$W"
